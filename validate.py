#!/opt/veriftools/pyvenv/bin/python
import json, jsonschema, glob, sys
jsonschema.validate(json.load(open('/verif/MANIFEST.json')), json.load(open('/root/.vp/MANIFEST.schema.json')))
es = json.load(open('/root/.vp/EVIDENCE.schema.json'))
bad = 0
for f in sorted(glob.glob('/verif/evidence/*.json')):
    try:
        jsonschema.validate(json.load(open(f)), es)
    except Exception as e:
        bad += 1
        print("INVALID", f, str(e)[:300])
print("manifest valid;", len(glob.glob('/verif/evidence/*.json')), "evidence files,", bad, "invalid")
sys.exit(1 if bad else 0)
