#![no_main]
// One target for every entropy-driven check: VERIF_FUZZ_ID selects the property.
libfuzzer_sys::fuzz_target!(|data: &[u8]| {
    vcheck::fuzz::one(data);
});
