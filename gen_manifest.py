#!/usr/bin/env python3
"""Regenerates MANIFEST.json from the table below (single source of truth for the interface)."""
import json, subprocess

BASELINE_OFF = ("cd /repo && (cargo nextest run --workspace --no-fail-fast --offline 2>/dev/null "
                "|| cargo test --workspace --no-fail-fast --offline)")

# id -> (technique, level text, level note, design ref)
T = "Trusted: "
PBT = "property-based testing: proptest-drawn entropy decoded into structured cases, "
CHECKS = {
 "C01": (PBT + "exact rational reference line (differential oracle), shrinking to a replay file",
         "Generated-input search: every lane of every query is compared with the exact rational line through the true bracket, allowance 8 ulp of the larger bracketing value. Finds bracket, formula and per-lane errors on uneven axes, at knots and one ulp beside them, in f64 and f32; establishes nothing about inputs outside the generated classes.",
         T + "hand-written exact arithmetic (self-tested each run), linear-scan bracket, magnitudes inside the exponent window.", "5/C01"),
 "C02": (PBT + "structural oracle in exact arithmetic on sampled values (knot values, one cubic per interval, C1/C2 jumps)",
         "Generated-input search over all boundary selections: knot values, one-cubic-per-interval and continuity of S' and S'' at interior knots are decided by exact linear functionals of the implementation's own samples. Independent of boundary-condition correctness; blind below the calibrated allowance.",
         T + "exact rational arithmetic, calibrated constant K (constants.rs), sigma from the certified exact spline.", "5/C02"),
 "C03": (PBT + "differential against a certified exact rational spline plus end-condition functionals",
         "Generated-input search: every sampled value of every lane is compared with the mathematically unique spline computed in exact rational arithmetic (different formulation than the crate, self-certified per solve); end conditions are additionally recovered from the implementation's values. All 25 (left,right) pairs, Periodic, per-lane selections, n=3/4/larger.",
         T + "exact arithmetic + certificate; allowance K*u*sigma calibrated on 300k data sets (K=2^18 f64, 2^15 f32): smaller errors are invisible.", "5/C03"),
 "C04": (PBT + "exact rational bilinear blend (differential) with transpose and grid-line metamorphic companions",
         "Generated-input search on non-square grids with independent axis classes: every lane compared with the exact blend of the true cell (16 ulp of the largest corner); transposed problem and 1-D linear interpolation along grid lines as companions.",
         T + "exact arithmetic, linear-scan bracket, exponent window.", "5/C04"),
 "C05": (PBT + "closed-range predicate as exact Ok/Err/panic oracle over all entry points",
         "Generated-input search over every strategy and entry point with range ends, adjacent floats, +-inf, NaN, far values and batches with offending elements at generated positions; 2-D with differing x / y ranges. Outcome classes are compared exactly.",
         T + "nothing beyond float comparison; messages are not checked.", "5/C05"),
 "C06": (PBT + "twin interpolators (bitwise in range) and exact end polynomial (differential) outside",
         "Generated-input search: extrapolating vs non-extrapolating twins must agree bit-for-bit in range; outside, results are compared with the exact end line / end cubic of the certified exact spline / border-cell bilinear form up to 2^40 spans away; no finite query may be rejected.",
         T + "exact arithmetic, tolerance model of DESIGN 3.4 with growth factor; NaN / infinite queries are outside the property.", "5/C06"),
 "C07": (PBT + "exact rational wrap + exact periodic spline (differential) and own in-range value (metamorphic)",
         "Generated-input search with wrap counts up to +-10^6 and queries ulps around the seam and its images: S(q) must match the exact periodic spline at the exactly wrapped argument and the implementation's own in-range value there, within L*delta_arg + K*u*sigma.",
         T + "exact arithmetic; argument-rounding allowance 8u(|q|+|k|P+|x0|+|xn|) times the exact Lipschitz constant.", "5/C07"),
 "C08": (PBT + "metamorphic perturbation of other lanes (bitwise) and projection onto a single lane (up to rounding)",
         "Generated-input search over data of 1..6 static and dynamic dimensions incl. zero-length axes: changing values (also NaN/inf/huge) or boundary selections of other lanes must leave lane j bit-identical; an interpolator built from lane j alone must agree up to rounding.",
         T + "bitwise comparison only within one concrete type; projection uses 2x the C01/C03/C04 allowance.", "5/C08"),
 "C09": (PBT + "complete enumeration of the dimension-type matrix with per-element agreement oracle (bitwise)",
         "Every cell of {query Ix0..Ix4, IxDyn rank 0..4} x {data Ix1..Ix6, IxDyn rank 1..7} x {Linear, CubicSpline, Bilinear} is visited in every run with random data: result shape, interp_array[idx] == interp(q[idx]), scalar == interp, *_into == allocating, batch errors.",
         T + "comparisons are between calls on the same interpolator value.", "5/C09"),
 "C10": (PBT + "decision-table generator with a validity predicate as oracle (admissible error-kind sets, no panic)",
         "Generated-input search over the builder decision table incl. simultaneous violations, dynamic ranks, NaN in axes, boundary array shapes, periodic ends, custom strategies with minimum 0..4; valid => Ok, invalid => Err of a kind matching a violated requirement, never a panic, custom build never reached for invalid input.",
         T + "the validity predicate (strictly increasing as defined by C12's reference classification).", "5/C10"),
 "C11": (PBT + "bounded-exhaustive (length<=40, guess, rank) enumeration plus random axes against a linear-scan reference",
         "Complete enumeration of 21 620 (L, initial guess, answer) triples in f64 and f32 plus random f64/f32/i32/i64 axes up to 10^4 knots (uniform, geometric, logarithmic, ulp-clustered, mixed magnitudes) with knot / neighbour / +-inf / +-MAX / +-0 queries; through get_lower_index and both get_index_left_of.",
         T + "linear scan; precondition (finite span and quotient, no NaN query) by construction.", "5/C11"),
 "C12": (PBT + "exhaustive enumeration of relation words (<,=,>) and NaN placements against classification by counting",
         "All 797 162 relation words up to vector length 13 in f64/f32/i32/i64, contiguous / reversed / strided views, two realisations; every NaN subset up to length 8; random long vectors with one late irregularity.",
         T + "the counting reference; exhaustive only for the enumerated part.", "5/C12"),
 "C13": (PBT + "layout / ownership variants against the standard-layout run of the same concrete type (bitwise differential)",
         "Generated-input search with independent layouts (C, F, strided slice, reversed strides, permuted axes) and storage kinds for data, axes, queries and output buffers on all five entry points; any difference, Err or panic relative to the standard-layout run is a violation; owned-vs-view compared where type-dependent pow folding cannot differ.",
         T + "ndarray's view machinery; policy of DESIGN 3.5 for cross-type bitwise comparison.", "5/C13"),
 "C14": (PBT + "poisoned-frame buffers with an exact oracle (Ok => fully written, equal to allocating variant, frame untouched; wrong shape => panic)",
         "Generated-input search over every entry point with a buffer, buffers being strided windows into poisoned storage, and every kind of wrong shape (axis +-1, permuted trailing / query axes, same element count, wrong rank, empty queries, xs/ys mismatch).",
         T + "poison bit pattern never produced by arithmetic; writes past the allocation are left to the ASan fuzz target.", "5/C14"),
 "C15": (PBT + "metamorphic relations (exact: bitwise; inexact: tolerance from the exact oracle)",
         "Generated-input search over seven relations (data x 2^k, negation, axis x 2^k with converted derivative values, dyadic grid shift, data x c, axis x odd c, superposition) for every strategy, in range and extrapolated, 1-D and 2-D.",
         T + "exactness of power-of-two scaling inside the exponent window (subnormal neighbourhoods excluded by construction).", "5/C15"),
 "C16": (PBT + "exact polynomial values as oracle (no linear solve in the reference)",
         "Generated-input search with dyadic-coefficient polynomials per lane and every end-condition pair the polynomial satisfies; in range and extrapolated to 8 spans; Linear / Bilinear with affine / bilinear forms. Second, independent oracle for the spline rows.",
         T + "exact arithmetic; allowance of DESIGN 3.4.", "5/C16"),
 "C17": (PBT + "operation histories (model: a fresh interpolator per operation), permuted and split across threads; static Send+Sync assertions",
         "Histories of up to 60 calls incl. failing and panicking ones must give, per operation, the outcome of a fresh interpolator, in order, permuted and on 2..16 threads sharing the interpolator; Send + Sync asserted at compile time for owned / view / shared storage.",
         T + "no control over thread schedules (stated limit); sequentially visible state is caught deterministically.", "5/C17"),
 "C18": (PBT + "recording / failing custom strategies with the trait documentation as predicate over the recorded calls",
         "Generated-input search with recording strategies (minimum 0..4, 1-D and 2-D, static and dynamic ranks): build reached only with validated inputs and the caller's axes; every interp_into sees the query bits in order and the right target shape; results land at the right position; accessors faithful; injected errors returned unchanged.",
         T + "the recorder; C12's reference classification for validity.", "5/C18"),
 "C19": (PBT + "complete enumeration of the instantiation matrix with an in-crate hook asserting type identity and counting casts; fast vs general path bitwise",
         "All 198 compiled (element, data dim, storage, strategy) cells x 5 query dimension types: the hook panics before a cast between different types, the cast counter must advance by exactly 2/3 for statically 1-D queries and 0 otherwise, and the fast path must equal the per-element path bit-for-bit.",
         T + "the hook (guarded by --cfg ndarray_interp_verif); a type-level fact is observed per compiled instantiation, not proved.", "5/C19"),
 "C20": (PBT + "twin with every non-bracketing row / knot poisoned or moved (bitwise metamorphic)",
         "Generated-input search: per query a twin is built whose non-bracketing data are NaN / inf / other values and whose non-bracketing knots are moved without reordering; the result must be bit-identical, in range and extrapolated, 1-D and 2-D, all lanes.",
         T + "bitwise comparison within one concrete type.", "5/C20"),
}

PENDING = {}

def main():
    props = [json.loads(l) for l in open("/verif/properties.jsonl")]
    hook_commits = subprocess.run(["git", "-C", "/repo", "log", "--format=%H", "--grep=^verif hook"],
                                  capture_output=True, text=True).stdout.split()
    checks = []
    na = []
    for p in props:
        i = p["id"]
        if i in CHECKS:
            tech, text, note, ref = CHECKS[i]
            checks.append({
                "property_id": i,
                "quick_cmd": f"./run.sh {i} quick",
                "thorough_cmd": f"./run.sh {i} thorough",
                "evidence_file": f"/verif/evidence/{i}.json",
                "replay_cmd_template": "./run.sh replay {path}",
                "engine": "vmatrix" if i == "C19" else "vcheck",
                "level_claimed": {"category": "exploration", "text": text, "design_ref": f"DESIGN.md section {ref}"},
                "level_note": note,
                "technique": tech,
            })
        else:
            na.append({"property_id": i, "reason": PENDING.get(i, "check not built yet (work in progress; see DESIGN.md section 5 for the planned generated-input check)")})
    m = {
        "version": 1,
        "setup_cmd": "./run.sh build",
        "hooks": {
            "guard": "--cfg ndarray_interp_verif",
            "enable": "RUSTFLAGS='--cfg ndarray_interp_verif' via /verif/harness/.cargo/config.toml ([build] rustflags); the harness depends on /repo by path",
            "baseline_off_cmd": BASELINE_OFF,
            "source_commits": hook_commits,
            "add_only": True,
        },
        "engines": [
            {"name": "vcheck", "path": "/verif/harness", "serves_properties": sorted(c for c in CHECKS if c != "C19"),
             "kind_free_text": "Rust binary: proptest TestRunner (fixed seeds, no persistence) draws entropy vectors that are decoded into structured cases; per-property oracles (exact rational references, differential/metamorphic relations, bounded-exhaustive enumerations); shrinks failures and writes replay files"},
            {"name": "vmatrix", "path": "/verif/harness/matrix", "serves_properties": ["C19"],
             "kind_free_text": "Rust binary (same driver): macro-expanded instantiation matrix compiled with the cast hook enabled"},
            {"name": "static_c17", "path": "/verif/harness/static_c17", "serves_properties": ["C17"],
             "kind_free_text": "compile-time Send + Sync assertions; a compile failure while the crate itself builds is reported as a C17 violation"},
        ],
        "checks": checks,
        "not_applicable": na,
        "notes": "All checks: ./run.sh <ID> <quick|thorough>; VERIF_SEED / VERIF_TIER honoured; exit 2 = inconclusive (build failure, watchdog, generator health), never reported as violation. Known findings: /verif/KNOWN_FINDINGS.txt.",
    }
    json.dump(m, open("/verif/MANIFEST.json", "w"), indent=1)
    print(f"{len(checks)} checks claimed, {len(na)} not applicable/pending")

if __name__ == "__main__":
    main()
