#!/usr/bin/env python3
"""Regenerates MANIFEST.json from the table below (single source of truth for the interface)."""
import json, subprocess

BASELINE_OFF = ("cd /repo && (cargo nextest run --workspace --no-fail-fast --offline 2>/dev/null "
                "|| cargo test --workspace --no-fail-fast --offline)")

# id -> (technique, level text, level note, design ref)
CHECKS = {
 "C01": ("property-based testing (proptest-driven generators, exact rational reference line, shrinking to a replay file)",
         "Generated-input search: every lane of every query is compared with the exact rational line through the true bracket, "
         "allowance 8 ulp of the larger bracketing value. Finds bracket, formula and per-lane errors on uneven axes, at knots and one ulp "
         "beside them, in f64 and f32; establishes nothing about inputs outside the generated classes.",
         "Trusted: the hand-written exact arithmetic (self-tested each run), the linear-scan bracket, magnitudes inside the exponent window.",
         "5/C01"),
 "C02": ("property-based testing (generated spline data sets; structural oracle in exact arithmetic on sampled values)",
         "Generated-input search over all boundary selections: knot values, one-cubic-per-interval (4 samples predict the 5th) and "
         "continuity of S' and S'' at interior knots are decided by exact linear functionals of the implementation's own samples. "
         "Independent of boundary-condition correctness; blind below the calibrated allowance.",
         "Trusted: exact rational arithmetic, the calibrated constant K (constants.rs), sigma taken from the certified exact spline.",
         "5/C02"),
 "C03": ("property-based testing (differential against a certified exact rational spline + end-condition functionals)",
         "Generated-input search: every sampled value of every lane is compared with the mathematically unique spline computed in "
         "exact rational arithmetic (different formulation than the crate, self-certified per solve); end conditions are additionally "
         "recovered from the implementation's values. All 25 (left,right) pairs, Periodic, per-lane selections, n=3/4/larger.",
         "Trusted: exact arithmetic + certificate; allowance K*u*sigma calibrated on 300k data sets (K=2^18 f64, 2^15 f32): smaller errors are invisible.",
         "5/C03"),
}

PENDING = {}

def main():
    props = [json.loads(l) for l in open("/verif/properties.jsonl")]
    hook_commits = subprocess.run(["git", "-C", "/repo", "log", "--format=%H", "--grep=^verif hook"],
                                  capture_output=True, text=True).stdout.split()
    checks = []
    na = []
    for p in props:
        i = p["id"]
        if i in CHECKS:
            tech, text, note, ref = CHECKS[i]
            checks.append({
                "property_id": i,
                "quick_cmd": f"./run.sh {i} quick",
                "thorough_cmd": f"./run.sh {i} thorough",
                "evidence_file": f"/verif/evidence/{i}.json",
                "replay_cmd_template": "./run.sh replay {path}",
                "engine": "vcheck",
                "level_claimed": {"category": "exploration", "text": text, "design_ref": f"DESIGN.md section {ref}"},
                "level_note": note,
                "technique": tech,
            })
        else:
            na.append({"property_id": i, "reason": PENDING.get(i, "check not built yet (work in progress; see DESIGN.md section 5 for the planned generated-input check)")})
    m = {
        "version": 1,
        "setup_cmd": "./run.sh build",
        "hooks": {
            "guard": "--cfg ndarray_interp_verif",
            "enable": "RUSTFLAGS='--cfg ndarray_interp_verif' via /verif/harness/.cargo/config.toml ([build] rustflags); the harness depends on /repo by path",
            "baseline_off_cmd": BASELINE_OFF,
            "source_commits": hook_commits,
            "add_only": True,
        },
        "engines": [
            {"name": "vcheck", "path": "/verif/harness", "serves_properties": sorted(CHECKS),
             "kind_free_text": "Rust binary: proptest TestRunner (fixed seeds, no persistence) draws entropy vectors that are decoded into structured cases; per-property oracles (exact rational references, differential/metamorphic relations, bounded-exhaustive enumerations); shrinks failures and writes replay files"},
        ],
        "checks": checks,
        "not_applicable": na,
        "notes": "All checks: ./run.sh <ID> <quick|thorough>; VERIF_SEED / VERIF_TIER honoured; exit 2 = inconclusive (build failure, watchdog, generator health), never reported as violation. Known findings: /verif/KNOWN_FINDINGS.txt.",
    }
    json.dump(m, open("/verif/MANIFEST.json", "w"), indent=1)
    print(f"{len(checks)} checks claimed, {len(na)} not applicable/pending")

if __name__ == "__main__":
    main()
