//! Command line driver shared by the check binaries.

use crate::common::*;
use std::process::exit;

fn find(reg: Vec<Box<dyn Check>>, id: &str) -> Box<dyn Check> {
    reg.into_iter().find(|c| c.id() == id).unwrap_or_else(|| {
        eprintln!("unknown property id {id}");
        exit(2)
    })
}

fn usage() -> ! {
    eprintln!("usage: vcheck <ID> [--tier quick|thorough] [--seed N] [--threads N] | vcheck replay <file> | vcheck list");
    exit(2)
}

pub fn run_cli(registry: fn() -> Vec<Box<dyn Check>>, selftest: fn() -> Result<(), String>) {
    let args: Vec<String> = std::env::args().skip(1).collect();
    if args.is_empty() {
        usage();
    }
    install_quiet_panic_hook();
    if let Err(e) = selftest() {
        println!("INCONCLUSIVE self test failed: {e}");
        exit(2);
    }
    if args[0] == "list" {
        for c in registry() {
            println!("{}", c.id());
        }
        return;
    }
    if args[0] == "from-bytes" {
        // vcheck from-bytes <ID> <libFuzzer artifact> : convert raw fuzz input into a replay file and run it
        let id = args.get(1).cloned().unwrap_or_else(|| usage());
        let path = args.get(2).cloned().unwrap_or_else(|| usage());
        let bytes = std::fs::read(&path).unwrap_or_else(|e| {
            eprintln!("cannot read {path}: {e}");
            exit(2)
        });
        let check = find(registry(), &id);
        let data = words(&bytes, check.entropy_len());
        let mut obs = Obs { want_desc: true, ..Obs::default() };
        let r = guarded_case(check.as_ref(), &data, &mut obs);
        let (sig, msg) = match &r {
            Ok(()) => ("none".to_string(), "holds without the sanitizer".to_string()),
            Err(f) => (f.sig.clone(), f.msg.clone()),
        };
        let rp = write_replay(&id, &serde_json::json!({"property": id, "kind": "entropy", "entropy": data, "tier": "thorough", "seed": 0,
            "signature": sig, "message": msg, "case": obs.desc, "source": format!("libFuzzer artifact {path}")}));
        println!("replay={rp}");
        exit(if r.is_err() { 1 } else { 0 });
    }
    if args[0] == "replay" {
        let path = args.get(1).cloned().unwrap_or_else(|| usage());
        let text = std::fs::read_to_string(&path).unwrap_or_else(|e| {
            eprintln!("cannot read {path}: {e}");
            exit(2)
        });
        if let Some(rest) = text.strip_prefix("regression ") {
            // "regression <ID> <name>": a coded regression case
            let mut it = rest.split_whitespace();
            let (id, name) = (it.next().unwrap_or("").to_string(), it.next().unwrap_or("").to_string());
            let check = find(registry(), &id);
            for (n, f) in check.regressions() {
                if n == name {
                    match catch(f) {
                        Ok(Ok(())) => {
                            println!("regression {id}/{name}: property holds on this case");
                            exit(0);
                        }
                        Ok(Err(fl)) => println!("regression failure [{}]: {}", fl.sig, fl.msg),
                        Err(p) => println!("regression failure [panic]: {p}"),
                    }
                    println!("VIOLATION property={id} replay={path}");
                    exit(1);
                }
            }
            eprintln!("unknown regression {id}/{name}");
            exit(2);
        }
        let v: serde_json::Value = serde_json::from_str(&text).unwrap_or_else(|e| {
            eprintln!("bad replay file: {e}");
            exit(2)
        });
        let id = v["property"].as_str().unwrap_or("").to_string();
        let check = find(registry(), &id);
        match replay(check.as_ref(), &v) {
            Ok(()) => {
                println!("replay of {path}: property {id} holds on this case");
                exit(0);
            }
            Err(f) => {
                println!("replay failure [{}]: {}", f.sig, f.msg);
                println!("VIOLATION property={id} replay={path}");
                exit(1);
            }
        }
    }
    let id = args[0].clone();
    let mut tier = Tier::Quick;
    let mut seed = DEFAULT_SEED;
    let mut threads = 0usize;
    let mut i = 1;
    while i < args.len() {
        match args[i].as_str() {
            "--tier" => {
                tier = if args.get(i + 1).map(|s| s.as_str()) == Some("thorough") { Tier::Thorough } else { Tier::Quick };
                i += 1;
            }
            "--seed" => {
                seed = args.get(i + 1).and_then(|s| s.parse().ok()).unwrap_or(seed);
                i += 1;
            }
            "--threads" => {
                threads = args.get(i + 1).and_then(|s| s.parse().ok()).unwrap_or(0);
                i += 1;
            }
            _ => usage(),
        }
        i += 1;
    }
    if let Ok(s) = std::env::var("VERIF_SEED") {
        if let Ok(v) = s.trim().parse::<u64>() {
            seed = v;
        } else if let Ok(v) = s.trim().parse::<i64>() {
            seed = v as u64;
        }
    }
    if let Ok(t) = std::env::var("VERIF_TIER") {
        match t.trim() {
            "thorough" => tier = Tier::Thorough,
            "quick" => tier = Tier::Quick,
            _ => {}
        }
    }
    if threads == 0 {
        threads = match tier {
            Tier::Quick => 8,
            Tier::Thorough => 16,
        };
    }
    SEED.store(seed, std::sync::atomic::Ordering::Relaxed);
    let check = find(registry(), &id);
    let known = Known::load();
    for (p, _s, text) in &known.sigs {
        if p == &id {
            println!("KNOWN-FINDING: {text}");
        }
    }
    // watchdog: a hang is "inconclusive", never a violation
    let limit = match tier {
        Tier::Quick => 1500,
        Tier::Thorough => 4 * 3600,
    };
    std::thread::spawn(move || {
        std::thread::sleep(std::time::Duration::from_secs(limit));
        println!("INCONCLUSIVE watchdog: {id} exceeded {limit}s");
        exit(2);
    });
    let id = check.id();
    // regression tier first: confirmed historic failures as plain cases that bypass the generators
    let mut replayed = 0u64;
    for (name, f) in check.regressions() {
        replayed += 1;
        let r = match catch(f) {
            Ok(r) => r,
            Err(p) => Err(Fail::new("panic-in-regression", p)),
        };
        if let Err(fl) = r {
            if known.matches(id, &fl.sig).is_some() {
                continue;
            }
            let path = format!("{VERIF_DIR}/regress/{id}/{name}.txt");
            println!("regression failure [{}]: {}", fl.sig, fl.msg);
            println!("VIOLATION property={id} replay={path}");
            exit(1);
        }
    }
    let out = drive(check.as_ref(), tier, seed, threads, &known);
    write_evidence(check.as_ref(), tier, seed, &out, replayed);
    let r = &out.report;
    println!(
        "{id} {} seed={seed}: {} cases, {} assertions, {} distinct non-trivial, max normalised error {:.3e}, {:.1}s",
        tier.name(), r.evaluations, r.assertions, r.distinct.len(), r.max_err, out.wall_s
    );
    if let Some(v) = &out.violation {
        if v.fail.sig == "proptest-abort" || v.fail.sig == "oracle-bug" {
            println!("INCONCLUSIVE [{}]: {}", v.fail.sig, v.fail.msg);
            exit(2);
        }
        let path = write_replay(id, &v.replay);
        println!("failure [{}]: {}", v.fail.sig, v.fail.msg);
        println!("VIOLATION property={id} replay={path}");
        exit(1);
    }
    let missing: Vec<_> = check.required_classes(tier).into_iter().filter(|c| !r.classes.contains_key(*c)).collect();
    if !missing.is_empty() {
        println!("INCONCLUSIVE generator health: classes never produced: {missing:?}");
        exit(2);
    }
    if r.distinct.len() < 2 {
        println!("INCONCLUSIVE generator health: fewer than 2 distinct non-trivial cases");
        exit(2);
    }
    exit(0);
}
