//! Generic 1-D case over every strategy (Linear, CubicSpline with any boundary selection).

use crate::adapt::{arr_1, arr_d, build1, DDim, Strat1, I1};
use crate::common::{Fail, Obs, Src};
use crate::gen::*;
use crate::splinegen::{BcSel, SplineCase, SplineOpts};
use serde_json::{json, Value};

#[derive(Clone, Debug, PartialEq)]
pub enum StratSel {
    Linear,
    Spline(BcSel),
}

impl StratSel {
    pub fn name(&self) -> String {
        match self {
            StratSel::Linear => "Linear".into(),
            StratSel::Spline(b) => format!("Spline/{}", b.name()),
        }
    }
}


/// Some(lane-0 column) when every lane holds exactly the data of lane 0 (bitwise) and there are at least two lanes:
/// such data can be handed over as a broadcast (stride 0) view
pub fn broadcastable(data: &[f64], n: usize, lanes: usize) -> Option<Vec<f64>> {
    if lanes < 2 || n == 0 {
        return None;
    }
    for i in 0..n {
        for l in 1..lanes {
            if data[i * lanes + l].to_bits() != data[i * lanes].to_bits() {
                return None;
            }
        }
    }
    Some((0..n).map(|i| data[i * lanes]).collect())
}

#[derive(Clone, Debug)]
pub struct Case1 {
    pub n: usize,
    pub axis_class: AxisClass,
    pub x: Vec<f64>,
    pub trailing: Vec<usize>,
    pub lanes: usize,
    pub data: Vec<f64>,
    pub dd: DDim,
    pub strat: StratSel,
    /// memory layout of the data array handed to the builder
    pub lay: crate::layout::Lay,
    /// memory layout of the explicit x axis
    pub xlay: crate::layout::Lay,
}

pub struct Opts1 {
    pub linear_weight: u32,
    pub spline_weight: u32,
    pub spline: SplineOpts,
    pub max_n_linear: usize,
    pub lens: &'static [usize],
    pub max_trailing_axes: usize,
    pub max_lanes: usize,
    /// occasional size stress: long axes (25..300) and many lanes (32..96)
    pub stress: bool,
}

impl Default for Opts1 {
    fn default() -> Self {
        Opts1 { linear_weight: 1, spline_weight: 2, spline: SplineOpts::default(), max_n_linear: 24, lens: &[1, 2, 3], max_trailing_axes: 3, max_lanes: 8, stress: true }
    }
}

impl Case1 {
    pub fn gen<T: Flt>(src: &mut Src, o: &Opts1) -> Case1 {
        if src.weighted(&[o.linear_weight, o.spline_weight]) == 0 {
            if o.stress && o.max_trailing_axes >= 1 && src.chance(1, 30) {
                // size stress: a long axis or many lanes; the bulk of the numbers comes from expanded entropy
                let long = src.bool();
                let n = if long { src.usize_in(25, 300) } else { src.usize_in(2, 6) };
                let trailing = if long { trailing_shape(src, 1, &[1, 2, 3]) } else { wide_trailing(src, o.max_trailing_axes) };
                let lanes = product(&trailing);
                let axis_class = axis_class(src);
                let vc = val_class(src);
                let sc = scale_exp::<T>(src);
                let dd = if src.chance(1, 5) { DDim::Dyn } else { DDim::of_rank(1 + trailing.len()) };
                let lay = crate::layout::pick_lay(src);
                let xlay = crate::layout::pick_lay(src);
                let ent = expand(src, 3 * n + 3 * n * lanes + 16);
                let mut s2 = Src::new(&ent);
                let x = axis::<T>(&mut s2, n, axis_class, None);
                let data = values::<T>(&mut s2, n * lanes, vc, sc);
                return Case1 { n, axis_class, x, trailing, lanes, data, dd, strat: StratSel::Linear, lay, xlay };
            }
            let n = src.usize_in(2, o.max_n_linear);
            let axis_class = axis_class(src);
            let x = axis::<T>(src, n, axis_class, None);
            let mut trailing = trailing_shape(src, o.max_trailing_axes, o.lens);
            while product(&trailing) > o.max_lanes {
                trailing.pop();
            }
            let lanes = product(&trailing);
            let vc = val_class(src);
            let sc = scale_exp::<T>(src);
            let mut data = values::<T>(src, n * lanes, vc, sc);
            // duplicated lanes: every lane holds the data of lane 0 (also handed over as a broadcast view)
            if lanes >= 2 && src.chance(1, 15) {
                for i in 0..n {
                    for l in 1..lanes {
                        data[i * lanes + l] = data[i * lanes];
                    }
                }
            }
            let dd = if src.chance(1, 5) { DDim::Dyn } else { DDim::of_rank(1 + trailing.len()) };
            let lay = crate::layout::pick_lay(src);
            let xlay = crate::layout::pick_lay(src);
            Case1 { n, axis_class, x, trailing, lanes, data, dd, strat: StratSel::Linear, lay, xlay }
        } else {
            let c = SplineCase::gen::<T>(src, &o.spline);
            Case1 { n: c.n, axis_class: c.axis_class, x: c.x, trailing: c.trailing, lanes: c.lanes, data: c.data, dd: c.dd, strat: StratSel::Spline(c.bc), lay: c.lay, xlay: c.xlay }
        }
    }
    pub fn shape(&self) -> Vec<usize> {
        let mut s = vec![self.n];
        s.extend_from_slice(&self.trailing);
        s
    }
    pub fn strat1<T: Flt>(&self, extrapolate: bool) -> Strat1<T> {
        match &self.strat {
            StratSel::Linear => Strat1::Linear { extrapolate },
            StratSel::Spline(bc) => Strat1::Spline { extrapolate, bc: bc.to_bc::<T>(&self.trailing) },
        }
    }
    pub fn build<T: Flt>(&self, extrapolate: bool) -> Result<Box<dyn I1<T>>, Fail> {
        let xo = if self.axis_class == AxisClass::Index { None } else { Some(crate::layout::realise1(arr_1::<T>(&self.x), self.xlay, T::of(-9.0e9))) };
        // equal lanes: in half of the cases the data is a broadcast (stride 0) view of its first lane
        let built = match broadcastable(&self.data, self.n, self.lanes) {
            Some(col) if crate::common::splitmix(col[0].to_bits()) & 1 == 0 => {
                let mut bshape = vec![self.n];
                bshape.extend(self.trailing.iter().map(|_| 1));
                crate::adapt::build1_bcast::<T>(xo, arr_d::<T>(&bshape, &col), &self.shape(), self.dd, &self.strat1::<T>(extrapolate))
            }
            _ => build1::<T>(xo, crate::layout::realise(arr_d::<T>(&self.shape(), &self.data), self.lay, T::of(-3.5e5)), self.dd, &self.strat1::<T>(extrapolate)),
        };
        match built {
            Some(Ok(i)) => Ok(i),
            Some(Err(e)) => Err(Fail::new("build-failed", format!("valid input rejected: {e}"))),
            None => Err(Fail::new("oracle-bug", "case not expressible in its dimension type")),
        }
    }
    pub fn lane_data(&self, l: usize) -> Vec<f64> {
        (0..self.n).map(|i| self.data[i * self.lanes + l]).collect()
    }
    pub fn classes(&self, obs: &mut Obs) {
        obs.class(format!("strat:{}", self.strat.name()));
        obs.class(format!("axis:{}", self.axis_class.name()));
        obs.class(format!("ddim:{}", self.dd.name()));
        obs.class(format!("trailing_axes:{}", self.trailing.len()));
        if self.lanes >= 32 {
            obs.class("lanes:32+");
        }
        if self.n > 40 {
            obs.class("n:41+");
        }
        obs.class(format!("datalayout:{}", self.lay.0.name()));
        if let Some(col) = broadcastable(&self.data, self.n, self.lanes) {
            obs.class(if crate::common::splitmix(col[0].to_bits()) & 1 == 0 { "data:broadcast-view" } else { "data:equal-lanes" });
        }
    }
    pub fn describe<T: Flt>(&self) -> Value {
        json!({"T": T::NAME, "strategy": self.strat.name(), "n": self.n, "axis_class": self.axis_class.name(),
            "x": crate::checks::ffs::<T>(&self.x, 8), "trailing": self.trailing, "data_dim": self.dd.name(),
            "data": crate::checks::ffs::<T>(&self.data, 8),
            "boundary": match &self.strat { StratSel::Spline(b) => b.describe(), _ => json!(null) }})
    }
    pub fn key(&self, obs: &mut Obs) {
        obs.key_f64s(&self.x);
        obs.key_f64s(&self.data);
        obs.key(&format!("{:?}", self.strat));
    }
}

/// a random query-array shape of the given rank: lengths 0..=9 for rank 1, 0..=4 for higher
/// ranks (0 rarely)
pub fn qshape(src: &mut Src, rank: usize) -> Vec<usize> {
    if rank == 1 {
        // occasionally long batches (size thresholds: chunking, unrolling, ...)
        if src.chance(1, 40) {
            return vec![src.usize_in(10, 130)];
        }
        return vec![src.weighted(&[1, 4, 4, 3, 2, 2, 1, 1, 1, 1])];
    }
    (0..rank).map(|_| src.weighted(&[1, 4, 4, 3, 1])).collect()
}
