//! C16 - polynomials of the strategy's degree are reproduced exactly.

use super::c03::k_const;
use super::c04::{eval2, exact_bilinear as _eb, query2, Grid, ULPS2};
use super::c06::outside;
use super::*;
use crate::adapt::*;
use crate::common::*;
use crate::exact::{poly_deriv, poly_eval, Rat};
use crate::fail;
use crate::gen::*;
use crate::gen1d::*;
use crate::oracle::growth;
use crate::splinegen::*;

pub struct C16;

impl Check for C16 {
    fn id(&self) -> &'static str {
        "C16"
    }
    fn entropy_len(&self) -> usize {
        600
    }
    fn cases(&self, tier: Tier) -> u64 {
        tier.pick(60_000, 2_000_000)
    }
    fn run_case(&self, src: &mut Src, obs: &mut Obs) -> Result<(), Fail> {
        let two_d = src.chance(1, 5);
        match (two_d, src.chance(1, 5)) {
            (false, false) => run1::<f64>(src, obs),
            (false, true) => run1::<f32>(src, obs),
            (true, false) => run2::<f64>(src, obs),
            (true, true) => run2::<f32>(src, obs),
        }
    }
    fn regressions(&self) -> Vec<(&'static str, fn() -> Result<(), Fail>)> {
        vec![("d1-right-notaknot-row", super::regress::d1_notaknot_right)]
    }
    fn rule(&self) -> String {
        "data sampled from polynomials with small dyadic coefficients (a different polynomial per lane): affine for Linear, bilinear forms \
         a+bx+cy+dxy for Bilinear; for CubicSpline per lane a (left,right) pair drawn from the end conditions the polynomial satisfies: NotAKnot, \
         FirstDeriv(p'(end)), SecondDeriv(p''(end)), Natural when p''(end)=0, Clamped when p'(end)=0 (polynomial classes: general cubic, cubic \
         with an inflection at an end, quadratic, line, constant); whole-set NotAKnot (cubics, n >= 4; quadratics for n = 3), Natural (lines), \
         Clamped and Periodic (constants). Axis classes: all (dyadic axes give exactly representable data, others rounded data), n from the \
         minimum upwards; dense in-range queries and extrapolated ones up to 8 spans. Oracle: the exact polynomial value in rational arithmetic, \
         allowances of DESIGN 3.4 (no linear solve in the reference: independent of the C03 oracle). Non-trivial: degree equals the strategy's \
         maximum, non-uniform axis, n above the minimum."
            .into()
    }
    fn assumptions(&self) -> Vec<String> {
        let mut v = super::c03::spline_assumptions();
        v.push("when the data are not exactly representable the rounded data are used; the effect is covered by the same allowance".into());
        v
    }
    fn required_classes(&self, _t: Tier) -> Vec<&'static str> {
        vec!["dim:1", "dim:2", "strat:Linear", "poly:cubic", "poly:cubic-inflection", "poly:quadratic", "poly:line", "poly:constant", "bc16:NotAKnot", "bc16:Natural", "bc16:Clamped", "bc16:Periodic", "bc16:Individual",
            "end16:FirstDeriv", "end16:SecondDeriv", "end16:NotAKnot", "end16:Natural", "end16:Clamped", "q16:extrapolated", "n16:minimum", "n16:above-minimum"]
    }
    fn extra_coverage(&self) -> serde_json::Value {
        json!({"K_f64": k_const::<f64>(), "K_f32": k_const::<f32>()})
    }
}

fn small_dyadic(src: &mut Src) -> Rat {
    // k / 8 with |k| <= 24
    Rat::ratio(src.int_in(-24, 24), 8)
}

#[derive(Clone, Copy, Debug, PartialEq)]
enum PClass {
    Cubic,
    Inflect,
    Quadratic,
    Line,
    Constant,
}

/// polynomial in the variable (x - c), low order first
struct Poly {
    c: Rat,
    coef: Vec<Rat>,
}

impl Poly {
    fn at(&self, x: &Rat) -> Rat {
        poly_eval(&self.coef, &x.sub(&self.c))
    }
    fn d1(&self, x: &Rat) -> Rat {
        poly_eval(&poly_deriv(&self.coef), &x.sub(&self.c))
    }
    fn d2(&self, x: &Rat) -> Rat {
        poly_eval(&poly_deriv(&poly_deriv(&self.coef)), &x.sub(&self.c))
    }
}

fn nonzero(src: &mut Src) -> Rat {
    let v = small_dyadic(src);
    if v.is_zero() {
        Rat::ratio(3, 8)
    } else {
        v
    }
}

fn run1<T: Flt>(src: &mut Src, obs: &mut Obs) -> Result<(), Fail> {
    obs.class("dim:1");
    obs.class(format!("T:{}", T::NAME));
    let linear = src.chance(1, 5);
    // axis: keep magnitudes moderate so that cubic data stay well inside the exponent window
    let class = axis_class(src);
    let n = if linear { src.usize_in(2, 12) } else { [3usize, 3, 4, 4, 5, 6, 8, 12, 20][src.below(9) as usize] };
    let x: Vec<f64> = match class {
        AxisClass::Index | AxisClass::Unit | AxisClass::Dyadic | AxisClass::Symmetric => axis::<T>(src, n, class, Some(6)),
        _ => {
            // scale the generated axis into [-8, 8] by a power of two (exact)
            let raw = axis::<T>(src, n, class, Some(6));
            let m = raw.iter().fold(0f64, |a, v| a.max(v.abs())).max(1e-300);
            let e = (8.0 / m).log2().floor() as i32;
            raw.iter().map(|v| T::of(v * 2f64.powi(e)).f()).collect()
        }
    };
    if !x.windows(2).all(|w| w[0] < w[1]) {
        return Ok(());
    }
    // trailing shape: none, one axis, or two / three axes (per-lane boundary arrays of rank >= 3)
    let trailing: Vec<usize> = match src.below(6) {
        0 if n <= 6 && src.chance(1, 8) => vec![src.usize_in(32, 40)],
        0 => vec![],
        1 | 2 => vec![src.usize_in(1, 4)],
        3 => vec![2, src.usize_in(1, 2)],
        4 => vec![src.usize_in(1, 2), 2],
        _ => vec![2, 1, 2],
    };
    let lanes: usize = trailing.iter().product();
    obs.class(format!("trailing_axes16:{}", trailing.len()));
    let (x0, xn) = (Rat::from_f64(x[0]), Rat::from_f64(x[n - 1]));
    // whole-set selection or Individual
    let whole = if linear { 9 } else { src.weighted(&[3, 1, 1, 1, 8]) }; // NotAKnot, Natural, Clamped, Periodic, Individual
    let mut polys: Vec<Poly> = Vec::new();
    let mut sels: Vec<LaneSel> = Vec::new();
    let mut maxdeg = false;
    for _ in 0..lanes {
        // polynomial class allowed by the boundary choice
        let pc = if linear {
            if src.chance(1, 6) { PClass::Constant } else { PClass::Line }
        } else {
            match whole {
                0 => if n == 3 { src.pick(&[PClass::Quadratic, PClass::Line]) } else { src.pick(&[PClass::Cubic, PClass::Cubic, PClass::Quadratic, PClass::Inflect]) },
                1 => src.pick(&[PClass::Line, PClass::Line, PClass::Constant]),
                2 | 3 => PClass::Constant,
                _ => src.pick(&[PClass::Cubic, PClass::Cubic, PClass::Inflect, PClass::Inflect, PClass::Quadratic, PClass::Line, PClass::Constant]),
            }
        };
        let at_left = src.bool();
        let centre = match pc {
            PClass::Inflect => if at_left { x0.clone() } else { xn.clone() },
            _ => Rat::from_f64(x[src.below(n as u64) as usize]),
        };
        let coef = match pc {
            PClass::Cubic => vec![small_dyadic(src), small_dyadic(src), small_dyadic(src), nonzero(src)],
            PClass::Inflect => vec![small_dyadic(src), small_dyadic(src), Rat::zero(), nonzero(src)],
            PClass::Quadratic => vec![small_dyadic(src), small_dyadic(src), nonzero(src)],
            PClass::Line => vec![small_dyadic(src), nonzero(src)],
            PClass::Constant => vec![nonzero(src)],
        };
        obs.class(match pc {
            PClass::Cubic => "poly:cubic",
            PClass::Inflect => "poly:cubic-inflection",
            PClass::Quadratic => "poly:quadratic",
            PClass::Line => "poly:line",
            PClass::Constant => "poly:constant",
        });
        let p = Poly { c: centre, coef };
        if whole == 4 {
            // choose an end condition the polynomial satisfies, per side
            let mut side = |e: &Rat, src: &mut Src, obs: &mut Obs| -> EndSel {
                let d1 = p.d1(e);
                let d2 = p.d2(e);
                let mut opts: Vec<EndSel> = vec![EndSel::First(T::of(d1.to_f64()).f()), EndSel::Second(T::of(d2.to_f64()).f())];
                // the derivative values must be exactly representable, otherwise the condition is only approximately the polynomial's
                if Rat::from_f64(opts[0].value()) != d1 {
                    opts.remove(0);
                }
                if let Some(EndSel::Second(v)) = opts.last() {
                    if Rat::from_f64(*v) != d2 {
                        opts.pop();
                    }
                }
                if n >= 4 || true {
                    opts.push(EndSel::NotAKnot);
                }
                if d2.is_zero() {
                    opts.push(EndSel::Natural);
                    opts.push(EndSel::Natural);
                }
                if d1.is_zero() {
                    opts.push(EndSel::Clamped);
                    opts.push(EndSel::Clamped);
                }
                let s = src.pick(&opts);
                obs.class(format!("end16:{}", s.name()));
                s
            };
            let l = side(&x0, src, obs);
            let mut r = side(&xn, src, obs);
            // 3 points with NotAKnot on both ends is the parabola special case: only degree <= 2 is representable
            if n == 3 && l == EndSel::NotAKnot && r == EndSel::NotAKnot && matches!(pc, PClass::Cubic | PClass::Inflect) {
                let d1 = p.d1(&xn);
                let v = T::of(d1.to_f64()).f();
                r = if Rat::from_f64(v) == d1 { EndSel::First(v) } else { EndSel::Second(T::of(p.d2(&xn).to_f64()).f()) };
                if let EndSel::Second(v2) = &r {
                    if Rat::from_f64(*v2) != p.d2(&xn) {
                        return Ok(()); // cannot express an exact end condition for this lane
                    }
                }
            }
            sels.push(LaneSel::Mixed(l, r));
        }
        maxdeg |= if linear { pc == PClass::Line } else { matches!(pc, PClass::Cubic | PClass::Inflect) || (n == 3 && pc == PClass::Quadratic) };
        polys.push(p);
    }
    let bc = match whole {
        0 => BcSel::NotAKnot,
        1 => BcSel::Natural,
        2 => BcSel::Clamped,
        3 => BcSel::Periodic,
        _ => BcSel::Individual(sels),
    };
    if !linear {
        obs.class(format!("bc16:{}", bc.name()));
    }
    // data
    let mut data = vec![0f64; n * lanes];
    let mut exact_data = true;
    for i in 0..n {
        let xi = Rat::from_f64(x[i]);
        for (l, p) in polys.iter().enumerate() {
            let v = p.at(&xi);
            let f = T::of(v.to_f64()).f();
            if Rat::from_f64(f) != v {
                exact_data = false;
            }
            data[i * lanes + l] = f;
        }
    }
    if matches!(bc, BcSel::Periodic) {
        for l in 0..lanes {
            data[(n - 1) * lanes + l] = data[l];
        }
    }
    obs.class(if exact_data { "data:exact" } else { "data:rounded" });
    let dd = if src.chance(1, 5) { DDim::Dyn } else { DDim::of_rank(1 + trailing.len()) };
    let strat = if linear { StratSel::Linear } else { StratSel::Spline(bc.clone()) };
    let lay = crate::layout::pick_lay(src);
    let xlay = crate::layout::pick_lay(src);
    let c = Case1 { n, axis_class: class, x: x.clone(), trailing: trailing.clone(), lanes, data: data.clone(), dd, strat, lay, xlay };
    c.classes(obs);
    let min = if linear { 2 } else { 3 };
    obs.class(if n == min { "n16:minimum" } else { "n16:above-minimum" });
    let interp = c.build::<T>(true)?;
    // queries
    let nq = src.usize_in(10, 24);
    let mut qs = Vec::new();
    for _ in 0..nq {
        if src.chance(1, 3) {
            // extrapolated up to 8 spans
            let span = x[n - 1] - x[0];
            let d = span * src.unit() * 8.0;
            let q = if src.bool() { T::of(x[0] - d).f() } else { T::of(x[n - 1] + d).f() };
            qs.push(q);
        } else {
            qs.push(query_in_range::<T>(src, &x).0);
        }
    }
    let _ = outside::<T>;
    let ep = pick_ep(src, dd == DDim::S1);
    let res = match catch(|| eval1::<T>(interp.as_ref(), &qs, ep, lanes, &trailing)) {
        Ok(r) => r?,
        Err(p) => fail!("panic", "query panicked: {p}"),
    };
    let k = k_const::<T>();
    for (l, p) in polys.iter().enumerate() {
        // scale: max |y| + h_i max |p'| over the knots
        let ymax = (0..n).map(|i| data[i * lanes + l].abs()).fold(0f64, f64::max);
        let kmax = (0..n).map(|i| p.d1(&Rat::from_f64(x[i])).abs_upper_f64()).fold(0f64, f64::max);
        for (j, &q) in qs.iter().enumerate() {
            let i = bracket(&x, q);
            let h = x[i + 1] - x[i];
            let t = (q - x[i]) / h;
            let is_out = q < x[0] || q > x[n - 1];
            if is_out && j < 6 {
                obs.class("q16:extrapolated");
            }
            let want = p.at(&Rat::from_f64(q));
            let tol = if linear {
                let (y1, y2) = (data[i * lanes + l].abs(), data[(i + 1) * lanes + l].abs());
                // data rounding (|y| u each, amplified by |1-t| + |t|) + evaluation
                (super::c01::ULPS * 2.0 + 2.0) * T::U * (y1 + t.abs() * (y1 + y2)).max(y1.max(y2)) * ((1.0 - t).abs() + t.abs()).max(1.0)
            } else {
                k * T::U * (ymax + h * kmax) * growth(t)
            } + T::TINY;
            let got = res[j][l].f();
            let (ok, ne) = within(got, &want, tol);
            obs.asserts += 1;
            obs.err_l(&format!("{}:{}", if linear { "linear" } else { "spline" }, T::NAME), ne);
            if !ok {
                let sel = match &c.strat {
                    StratSel::Spline(BcSel::Individual(v)) => v[l].name(),
                    StratSel::Spline(b) => b.name().to_string(),
                    _ => "Linear".into(),
                };
                fail!(format!("polynomial-not-reproduced/{}/{}", sel, if is_out { "extrapolated" } else { "in-range" }),
                    "T={} {} lane {l} [{sel}] n={n}: polynomial of degree {} about {:e} with coefficients {:?}: at q={q:e} got {got:e}, polynomial value {:e}, |diff|/allowance={ne:.3e}; x={:?}",
                    T::NAME, c.strat.name(), p.coef.len() - 1, p.c.to_f64(), p.coef, want.to_f64(), x);
            }
        }
    }
    obs.nontrivial = maxdeg && !is_uniform(&x) && n > min;
    if obs.nontrivial {
        c.key(obs);
        obs.key_f64s(&qs);
    }
    obs.describe(|| {
        let mut d = c.describe::<T>();
        d["polynomials"] = json!(polys.iter().take(3).map(|p| format!("about {:e}: {:?}", p.c.to_f64(), p.coef)).collect::<Vec<_>>());
        d["queries"] = ffs::<T>(&qs, 5);
        d
    });
    Ok(())
}

fn run2<T: Flt>(src: &mut Src, obs: &mut Obs) -> Result<(), Fail> {
    obs.class("dim:2");
    obs.class(format!("T:{}", T::NAME));
    obs.class("strat:Bilinear");
    let mut g = Grid::gen::<T>(src, 1);
    // moderate magnitudes: rescale axes into [-8, 8] exactly
    for ax in [&mut g.x, &mut g.y] {
        let m = ax.iter().fold(0f64, |a, v| a.max(v.abs())).max(1e-300);
        let e = (8.0 / m).log2().floor() as i32;
        if e < 0 || m < 1e-3 {
            for v in ax.iter_mut() {
                *v = T::of(*v * 2f64.powi(e)).f();
            }
        }
    }
    if g.cx == AxisClass::Index && g.x.iter().enumerate().any(|(i, &v)| v != i as f64) {
        g.cx = AxisClass::Unit;
    }
    if g.cy == AxisClass::Index && g.y.iter().enumerate().any(|(i, &v)| v != i as f64) {
        g.cy = AxisClass::Unit;
    }
    if !g.x.windows(2).all(|w| w[0] < w[1]) || !g.y.windows(2).all(|w| w[0] < w[1]) {
        return Ok(());
    }
    g.classes(obs);
    // a + b x + c y + d x y per lane
    let forms: Vec<[Rat; 4]> = (0..g.lanes).map(|_| [small_dyadic(src), small_dyadic(src), small_dyadic(src), nonzero(src)]).collect();
    let f = |fm: &[Rat; 4], x: &Rat, y: &Rat| fm[0].add(&fm[1].mul(x)).add(&fm[2].mul(y)).add(&fm[3].mul(x).mul(y));
    for i in 0..g.nx {
        for j in 0..g.ny {
            for l in 0..g.lanes {
                g.data[(i * g.ny + j) * g.lanes + l] = T::of(f(&forms[l], &Rat::from_f64(g.x[i]), &Rat::from_f64(g.y[j])).to_f64()).f();
            }
        }
    }
    let interp = g.build::<T>(true)?;
    let nq = src.usize_in(8, 16);
    let mut qs = Vec::new();
    for _ in 0..nq {
        let ((a, b), _) = query2::<T>(src, &g.x, &g.y);
        let ext = |src: &mut Src, ax: &[f64], v: f64| -> f64 {
            if src.chance(1, 4) {
                let span = ax[ax.len() - 1] - ax[0];
                let d = span * src.unit() * 8.0;
                if src.bool() { T::of(ax[0] - d).f() } else { T::of(ax[ax.len() - 1] + d).f() }
            } else {
                v
            }
        };
        qs.push((ext(src, &g.x, a), ext(src, &g.y, b)));
    }
    let ep = pick_ep(src, g.dd == DDim::S2);
    let res = eval2::<T>(interp.as_ref(), &qs, ep, g.lanes, &g.trailing)?;
    for (k, &(qx, qy)) in qs.iter().enumerate() {
        let (i, j) = (bracket(&g.x, qx), bracket(&g.y, qy));
        let s = (qx - g.x[i]) / (g.x[i + 1] - g.x[i]);
        let t = (qy - g.y[j]) / (g.y[j + 1] - g.y[j]);
        if qx < g.x[0] || qx > g.x[g.nx - 1] || qy < g.y[0] || qy > g.y[g.ny - 1] {
            obs.class("q16:extrapolated");
        }
        for l in 0..g.lanes {
            let z = [g.z(i, j, l), g.z(i, j + 1, l), g.z(i + 1, j, l), g.z(i + 1, j + 1, l)];
            let m = z.iter().fold(0f64, |a, v| a.max(v.abs()));
            let gr = ((1.0 - s).abs() + s.abs()) * ((1.0 - t).abs() + t.abs());
            let tol = (ULPS2 * 2.0 + 2.0) * T::U * m * gr + T::TINY;
            let want = f(&forms[l], &Rat::from_f64(qx), &Rat::from_f64(qy));
            let got = res[k][l].f();
            let (ok, ne) = within(got, &want, tol);
            obs.asserts += 1;
            obs.err_l(&format!("bilinear:{}", T::NAME), ne);
            if !ok {
                fail!("bilinear-form-not-reproduced", "T={} lane {l}: form {:?} at ({qx:e},{qy:e}): got {got:e}, exact {:e}, |diff|/allowance={ne:.3e}", T::NAME, forms[l], want.to_f64());
            }
        }
    }
    obs.nontrivial = g.nx != g.ny || g.nx > 2;
    if obs.nontrivial {
        g.key(obs);
    }
    obs.describe(|| {
        let mut d = g.describe::<T>();
        d["forms"] = json!(forms.iter().take(2).map(|f| format!("{f:?}")).collect::<Vec<_>>());
        d
    });
    let _ = _eb;
    Ok(())
}
