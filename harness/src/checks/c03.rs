//! C03 - the cubic spline honours the selected boundary conditions (unique spline).

use super::*;
use crate::adapt::*;
use crate::common::*;
use crate::exact::Rat;
use crate::fail;
use crate::gen::*;
use crate::oracle::*;
use crate::splinegen::*;
use ndarray::IxDyn;

pub struct C03;

impl Check for C03 {
    fn id(&self) -> &'static str {
        "C03"
    }
    fn entropy_len(&self) -> usize {
        700
    }
    fn cases(&self, tier: Tier) -> u64 {
        tier.pick(4_000, 300_000)
    }
    fn run_case(&self, src: &mut Src, obs: &mut Obs) -> Result<(), Fail> {
        if src.chance(1, 5) {
            run::<f32>(src, obs)
        } else {
            run::<f64>(src, obs)
        }
    }
    fn regressions(&self) -> Vec<(&'static str, fn() -> Result<(), Fail>)> {
        vec![("d1-right-notaknot-row", super::regress::d1_notaknot_right)]
    }
    fn rule(&self) -> String {
        "random spline data sets (n = 3, 4, 5..12 weighted, up to 40; axis classes with mesh ratio <= 2^6; 0..3 trailing \
         axes; value classes small-int/dyadic/full-mantissa; f64 80% / f32) with every boundary selection: NotAKnot, Natural, \
         Clamped, Periodic, Individual with per-lane RowBoundary incl. Mixed(left,right) over all 25 ordered pairs of the 5 \
         single-end conditions (FirstDeriv/SecondDeriv values scaled to data/h, data/h^2). Oracle 1: the certified exact \
         rational spline (moments form, pivoted elimination), compared at 5 abscissae per interval in every lane. Oracle 2: \
         end-condition residuals recovered from the implementation's own values by exact linear functionals (cubic fit of 4 \
         samples): S'(end)-v, S''(end)-v, S''' jump across the first/last interior knot, periodic S'/S'' match. \
         Non-trivial: non-uniform axis. Distinct: hash of axis, data, boundary selection."
            .into()
    }
    fn assumptions(&self) -> Vec<String> {
        spline_assumptions()
    }
    fn required_classes(&self, tier: Tier) -> Vec<&'static str> {
        let mut v = vec!["T:f64", "T:f32", "n:3", "n:4", "n:5-12", "n:13-40", "bc:Periodic", "bc:Individual", "bc:NotAKnot",
            "bc:Natural", "bc:Clamped", "h[n-2]!=h[n-3]", "h0!=h1"];
        if tier == Tier::Thorough || true {
            for p in ["pair:NotAKnot|NotAKnot", "pair:NotAKnot|FirstDeriv", "pair:SecondDeriv|NotAKnot", "pair:Clamped|Natural", "pair:FirstDeriv|SecondDeriv"] {
                v.push(p);
            }
        }
        v
    }
    fn extra_coverage(&self) -> serde_json::Value {
        json!({"K_f64": k_const::<f64>(), "K_f32": k_const::<f32>(), "allowance": "K * u * sigma_i * g(t); sigma_i = max|y| + h_i max|k| from the exact spline"})
    }
}

pub fn spline_assumptions() -> Vec<String> {
    vec![
        format!("value allowance K*u*sigma_i*g(t) with K = {} (f64) / {} (f32), calibrated (DESIGN 3.4); errors below it are invisible", k_const::<f64>(), k_const::<f32>()),
        "axes: 3..40 knots, mesh ratio <= 2^6; magnitudes inside the exponent window".into(),
        "exact spline oracle (hand-written rationals) certified per solve: interpolation, C1/C2 at knots, end conditions with residual exactly 0".into(),
    ]
}

pub fn k_const<T: Flt>() -> f64 {
    if T::MANT == 53 {
        crate::constants::K_F64
    } else {
        crate::constants::K_F32
    }
}

/// monomial coefficients (in s = q - a) of the cubic through the 4 points
pub fn fit_cubic(q: &[Rat], v: &[Rat], a: &Rat) -> Vec<Rat> {
    let n = q.len();
    // divided differences
    let mut dd: Vec<Rat> = v.to_vec();
    for j in 1..n {
        for i in (j..n).rev() {
            dd[i] = dd[i].sub(&dd[i - 1]).div(&q[i].sub(&q[i - j]));
        }
    }
    // Newton form -> monomial in s
    let mut poly = vec![Rat::zero(); n];
    let mut basis = vec![Rat::one()];
    for j in 0..n {
        for (k, b) in basis.iter().enumerate() {
            poly[k] = poly[k].add(&dd[j].mul(b));
        }
        // basis *= (s - (q_j - a))
        let c = q[j].sub(a);
        let mut nb = vec![Rat::zero(); basis.len() + 1];
        for (k, b) in basis.iter().enumerate() {
            nb[k + 1] = nb[k + 1].add(b);
            nb[k] = nb[k].sub(&b.mul(&c));
        }
        basis = nb;
    }
    poly
}

/// derivative of order `ord` at s = 0 of the fitted cubic, as weights on the 4 values
pub fn deriv_weights(q: &[Rat], a: &Rat, ord: usize) -> Vec<Rat> {
    let fact = [1i64, 1, 2, 6][ord];
    (0..q.len())
        .map(|j| {
            let e: Vec<Rat> = (0..q.len()).map(|i| if i == j { Rat::one() } else { Rat::zero() }).collect();
            fit_cubic(q, &e, a)[ord].mul_i(fact)
        })
        .collect()
}

pub fn apply(w: &[Rat], v: &[Rat]) -> Rat {
    w.iter().zip(v).fold(Rat::zero(), |s, (a, b)| s.add(&a.mul(b)))
}

pub fn norm1(w: &[Rat], allow: &[f64]) -> f64 {
    w.iter().zip(allow).map(|(a, &t)| a.abs_upper_f64() * t).sum()
}

fn run<T: Flt>(src: &mut Src, obs: &mut Obs) -> Result<(), Fail> {
    obs.class(format!("T:{}", T::NAME));
    let c = SplineCase::gen::<T>(src, &SplineOpts::default());
    c.classes(obs);
    let interp = c.build::<T>(false)?;
    let n = c.n;
    // intervals to sample
    let mut ivs: Vec<usize> = if n <= 13 { (0..n - 1).collect() } else {
        let mut v = vec![0, 1, n - 3, n - 2];
        for _ in 0..8 {
            v.push(src.below(n as u64 - 1) as usize);
        }
        v.sort();
        v.dedup();
        v
    };
    ivs.dedup();
    let mut qs: Vec<f64> = Vec::new();
    let mut q_iv: Vec<usize> = Vec::new();
    for &i in &ivs {
        for q in interval_samples::<T>(&c.x, i) {
            qs.push(q);
            q_iv.push(i);
        }
    }
    let qa = ndarray::ArrayD::from_shape_vec(IxDyn(&[qs.len()]), qs.iter().map(|&q| T::of(q)).collect()).unwrap();
    let use_dyn = src.chance(1, 4);
    let res = match interp.t_array(qa.view(), if use_dyn { QDim::Dyn } else { QDim::S1 }).unwrap() {
        Ok(a) => a,
        Err(e) => fail!("in-range-rejected", "interp_array -> {e}"),
    };
    let lanes = c.lanes;
    let k = k_const::<T>();
    for l in 0..lanes {
        let yl = c.lane_data(l);
        let bounds = c.bc.bounds(l);
        let sp = match Spline::solve(&c.x, &yl, &bounds) {
            Ok(s) => s,
            Err(e) => fail!("oracle-bug", "exact spline failed: {e} (x={:?} y={:?} {:?})", c.x, yl, bounds),
        };
        let (ln, rn) = match &bounds {
            Bounds::Periodic => ("Periodic", "Periodic"),
            Bounds::Ends(..) => {
                let (a, b) = c.bc.lane(l).ends();
                (a.name(), b.name())
            }
        };
        let mut allow = vec![0.0; qs.len()];
        let mut got = vec![0.0; qs.len()];
        for (j, &q) in qs.iter().enumerate() {
            let i = q_iv[j];
            let want = sp.eval(i, &Rat::from_f64(q));
            let g = res.v[j * lanes + l].f();
            got[j] = g;
            let tol = k * T::U * sp.sigma(i) * 1.25;
            allow[j] = tol;
            let (ok, ne) = within(g, &want, tol);
            obs.asserts += 1;
            obs.err_l(&format!("values:{}:{}", T::NAME, if matches!(bounds, Bounds::Periodic) { "periodic" } else { "ends" }), ne);
            if !ok {
                let side = if i + 1 <= (n - 1) / 2 { "left-half" } else { "right-half" };
                fail!(
                    format!("values/{ln}|{rn}/{side}"),
                    "T={} n={n} lane {l} [{ln}|{rn}] interval {i}: q={:e} got {:e}, exact spline {:e}, |diff|/allowance={:.3e} (allowance {:.3e}); x={:?} y={:?}",
                    T::NAME, q, g, want.to_f64(), ne, tol, c.x, yl
                );
            }
        }
        // oracle 2: end conditions from the implementation's own values
        let piece = |i: usize| -> Option<(Vec<Rat>, Vec<Rat>, Vec<f64>)> {
            let idx: Vec<usize> = (0..qs.len()).filter(|&j| q_iv[j] == i).collect();
            if idx.len() < 4 {
                return None;
            }
            let pick = [idx[0], idx[1], idx[idx.len() - 2], idx[idx.len() - 1]];
            Some((
                pick.iter().map(|&j| Rat::from_f64(qs[j])).collect(),
                pick.iter().map(|&j| Rat::from_f64(got[j])).collect(),
                pick.iter().map(|&j| allow[j]).collect(),
            ))
        };
        let x0 = Rat::from_f64(c.x[0]);
        let xn = Rat::from_f64(c.x[n - 1]);
        let mut endcheck = |name: &str, side: &str, val: Rat, target: Rat, tol: f64, obs: &mut Obs| -> Result<(), Fail> {
            let d = val.sub(&target).abs();
            obs.asserts += 1;
            let ne = if tol > 0.0 { d.to_f64() / tol } else if d.is_zero() { 0.0 } else { f64::INFINITY };
            obs.err_l(&format!("endcond:{}", T::NAME), ne);
            if !(d.is_zero() || (tol > 0.0 && d.le(&Rat::from_f64(tol)))) {
                fail!(
                    format!("endcond/{side}={name}"),
                    "T={} n={n} lane {l} [{ln}|{rn}]: {side} end condition {name} violated: recovered {:e}, required {:e}, |diff|/allowance={:.3e}; x={:?} y={:?}",
                    T::NAME, val.to_f64(), target.to_f64(), ne, c.x, yl
                );
            }
            Ok(())
        };
        if let (Some((q0, v0, a0)), Some((q1, v1, a1))) = (piece(0), piece(n - 2)) {
            match &bounds {
                Bounds::Periodic => {
                    for ord in [1usize, 2] {
                        let wl = deriv_weights(&q0, &x0, ord);
                        let wr = deriv_weights(&q1, &xn, ord);
                        let tol = norm1(&wl, &a0) + norm1(&wr, &a1);
                        endcheck(if ord == 1 { "Periodic-S'" } else { "Periodic-S''" }, "both", apply(&wl, &v0), apply(&wr, &v1), tol, obs)?;
                    }
                }
                Bounds::Ends(le, re) => {
                    for (side, e, qq, vv, aa, at, nb) in [("left", le, &q0, &v0, &a0, &x0, 1usize), ("right", re, &q1, &v1, &a1, &xn, n.wrapping_sub(3))] {
                        match e {
                            End::First(t) => {
                                let w = deriv_weights(qq, at, 1);
                                endcheck("FirstDeriv", side, apply(&w, vv), t.clone(), norm1(&w, aa), obs)?;
                            }
                            End::Second(t) => {
                                let w = deriv_weights(qq, at, 2);
                                endcheck("SecondDeriv", side, apply(&w, vv), t.clone(), norm1(&w, aa), obs)?;
                            }
                            End::NotAKnot => {
                                if n >= 3 && nb < n - 1 {
                                    if let Some((q2, v2, a2)) = piece(nb) {
                                        let w = deriv_weights(qq, at, 3);
                                        let w2 = deriv_weights(&q2, at, 3);
                                        endcheck("NotAKnot", side, apply(&w, vv), apply(&w2, &v2), norm1(&w, aa) + norm1(&w2, &a2), obs)?;
                                    }
                                }
                            }
                        }
                    }
                }
            }
        }
    }
    obs.nontrivial = !is_uniform(&c.x);
    if obs.nontrivial {
        c.key(obs);
    }
    obs.describe(|| c.describe::<T>());
    Ok(())
}
