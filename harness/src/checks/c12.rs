//! C12 - monotonic_prop classifies every vector correctly and never calls NaN data rising.

use super::*;
use crate::common::*;
use crate::fail;
use ndarray::{s, Array1, ArrayView1};
use ndarray_interp::vector_extensions::{Monotonic, VectorExtensions};
use std::fmt::Debug;

pub struct C12;

#[derive(Clone, Copy, PartialEq, Eq, Debug)]
pub enum Mono {
    Rising(bool),
    Falling(bool),
    Not,
}

fn conv(m: Monotonic) -> Mono {
    match m {
        Monotonic::Rising { strict } => Mono::Rising(strict),
        Monotonic::Falling { strict } => Mono::Falling(strict),
        Monotonic::NotMonotonic => Mono::Not,
    }
}

/// reference classification by counting relations (NaN-free input)
pub fn classify<E: PartialOrd>(v: &[E]) -> Mono {
    if v.len() < 2 {
        return Mono::Not;
    }
    let (mut lt, mut eq, mut gt, mut other) = (0, 0, 0, 0);
    for w in v.windows(2) {
        if w[0] < w[1] {
            lt += 1;
        } else if w[0] == w[1] {
            eq += 1;
        } else if w[0] > w[1] {
            gt += 1;
        } else {
            other += 1;
        }
    }
    if other > 0 {
        return Mono::Not;
    }
    if gt == 0 && lt > 0 {
        Mono::Rising(eq == 0)
    } else if lt == 0 && gt > 0 {
        Mono::Falling(eq == 0)
    } else {
        Mono::Not
    }
}

fn word_count(kmax: u32) -> u64 {
    (0..=kmax).map(|k| 3u64.pow(k)).sum::<u64>() + 1 // +1: the empty vector
}

impl Check for C12 {
    fn id(&self) -> &'static str {
        "C12"
    }
    fn entropy_len(&self) -> usize {
        120
    }
    fn cases(&self, tier: Tier) -> u64 {
        tier.pick(10_000, 200_000)
    }
    fn enum_count(&self, tier: Tier) -> u64 {
        word_count(12)
    }
    fn enum_exhaustive(&self, _tier: Tier) -> bool {
        true
    }
    fn run_enum(&self, index: u64, _tier: Tier, obs: &mut Obs) -> Result<(), Fail> {
        if index == 0 {
            // empty vector
            let e: Array1<f64> = Array1::from_vec(vec![]);
            expect("f64", "empty", &e.view(), &[], obs)?;
            let e: Array1<i32> = Array1::from_vec(vec![]);
            expect("i32", "empty", &e.view(), &[], obs)?;
            obs.class("len:0");
            return Ok(());
        }
        let mut i = index - 1;
        let mut k = 0u32;
        while i >= 3u64.pow(k) {
            i -= 3u64.pow(k);
            k += 1;
        }
        // word = base-3 digits of i, length k
        let mut word = Vec::with_capacity(k as usize);
        let mut t = i;
        for _ in 0..k {
            word.push((t % 3) as i64 - 1); // -1: '>', 0: '=', 1: '<'
            t /= 3;
        }
        obs.class(format!("len:{}", k + 1));
        // realisation 1: unit steps; realisation 2: varying step sizes (derived from the index)
        let mut unit = vec![0i64];
        let mut vary = vec![index as i64 % 17 - 8];
        let mut h = splitmix(index);
        for &d in &word {
            unit.push(unit.last().unwrap() + d);
            h = splitmix(h);
            vary.push(vary.last().unwrap() + d * (1 + (h % 1000) as i64));
        }
        for (rn, vals) in [("unit", &unit), ("vary", &vary)] {
            all_types(rn, vals, obs)?;
        }
        // NaN placements: every non-empty subset of positions, vectors up to length 8
        let len = k as usize + 1;
        if len <= 8 {
            let base: Vec<f64> = unit.iter().map(|&v| v as f64).collect();
            for mask in 1u32..(1 << len) {
                let v: Vec<f64> = (0..len).map(|p| if mask >> p & 1 == 1 { f64::NAN } else { base[p] }).collect();
                nan_case("f64", &Array1::from_vec(v.clone()).view(), obs, mask, &base)?;
                let v32: Vec<f32> = v.iter().map(|&x| x as f32).collect();
                nan_case("f32", &Array1::from_vec(v32).view(), obs, mask, &base)?;
            }
            obs.class("nan-subsets");
        }
        obs.nontrivial = true;
        obs.key(&index);
        obs.describe(|| json!({"relations": word.iter().map(|d| match d { 1 => "<", 0 => "=", _ => ">" }).collect::<String>(), "unit_realisation": unit, "varying_realisation": vary}));
        Ok(())
    }
    fn run_case(&self, src: &mut Src, obs: &mut Obs) -> Result<(), Fail> {
        // long vectors whose first irregularity sits at a generated (often late) position
        let n = match src.below(3) {
            0 => src.usize_in(1_000, 5_000),
            1 => src.usize_in(5_000, 20_000),
            _ => src.usize_in(20_000, 100_000),
        };
        let dir: i64 = if src.bool() { 1 } else { -1 };
        // 1 of 5: non-strictly monotone vectors that are flat almost everywhere (long plateaus, the strict steps bunched at the
        // start, at the end or at a few places) and staircases - every sub-sample of such a vector may be constant
        if src.chance(1, 5) {
            let n = if src.bool() { src.usize_in(20, 400) } else { n };
            let mut v = vec![0i64; n];
            let shape = src.below(4);
            let steps = src.usize_in(1, 7);
            let mut level = 0i64;
            for i in 0..n {
                let step_here = match shape {
                    0 => i >= n - steps,                                    // moves only at the very end
                    1 => i >= 1 && i <= steps,                               // moves only at the start
                    2 => i > 0 && i % src.usize_in(5, 40).max(1) == 0,     // staircase with random tread lengths
                    _ => i > 0 && (i == n / 3 || i == n / 3 + 1 || i == 2 * n / 3), // a few isolated steps
                };
                if step_here {
                    level += dir;
                }
                v[i] = level;
            }
            obs.class(["long:flat-then-steps", "long:steps-then-flat", "long:staircase", "long:few-steps"][shape as usize]);
            let f: Vec<f64> = v.iter().map(|&x| x as f64).collect();
            expect("f64", "long-plateaus", &Array1::from_vec(f.clone()).view(), &f, obs)?;
            expect("i64", "long-plateaus", &Array1::from_vec(v.clone()).view(), &v, obs)?;
            let f32v: Vec<f32> = v.iter().map(|&x| x as f32).collect();
            expect("f32", "long-plateaus", &Array1::from_vec(f32v.clone()).view(), &f32v, obs)?;
            let ra = Array1::from_vec(f.iter().rev().cloned().collect::<Vec<f64>>());
            expect("f64", "long-plateaus-reversed", &ra.slice(s![..;-1]), &f, obs)?;
            obs.nontrivial = true;
            obs.key(&(n, shape, steps, dir, v.iter().sum::<i64>()));
            obs.describe(|| json!({"length": n, "kind": "plateaus", "shape": shape, "direction": dir}));
            return Ok(());
        }
        let mut v: Vec<i64> = (0..n as i64).map(|i| dir * i * 3).collect();
        let kind = src.below(5);
        let pos = match src.below(6) {
            0 | 1 | 2 => n - 1 - src.below((n as u64 / 50).max(1)) as usize,
            // block seams: the pair that straddles a multiple of a power of two (chunked / unrolled scans)
            3 | 4 => {
                let b = 1usize << src.usize_in(2, 14);
                let m = (n - 1) / b;
                if m >= 1 {
                    obs.class("long:irregularity-at-block-seam");
                    b * src.usize_in(1, m)
                } else {
                    src.usize_in(1, n - 1)
                }
            }
            _ => src.usize_in(1, n - 1),
        };
        let pos = pos.clamp(1, n - 1);
        match kind {
            0 => {}
            1 => v[pos] = v[pos - 1],                 // one tie
            2 => v[pos] = v[pos - 1] - dir,           // one step back
            3 => {
                v[pos] = v[pos - 1];
                let p2 = src.usize_in(1, n - 1);
                v[p2] = v[p2 - 1] - dir;
            }
            _ => {}
        }
        obs.class(["long:strict", "long:one-tie", "long:one-reversal", "long:tie-and-reversal", "long:nan"][kind as usize]);
        if kind == 4 {
            // NaN at the generated position, or at the very first / last element; contiguous, reversed-stride and every-2nd views;
            // also vectors of moderate length (16..200), where a scan may switch strategy
            let (n, pos) = if src.chance(1, 3) {
                let m = src.usize_in(9, 200);
                (m, pos % m)
            } else {
                (n, pos)
            };
            let pos = match src.below(4) {
                0 => 0,
                1 => n - 1,
                _ => pos,
            };
            let mut f: Vec<f64> = (0..n as i64).map(|i| (dir * i * 3) as f64).collect();
            f[pos] = f64::NAN;
            let rev: Vec<f64> = f.iter().rev().cloned().collect();
            let mut st = vec![-1e9f64; 2 * n];
            for (i, x) in f.iter().enumerate() {
                st[2 * i] = *x;
            }
            let (a, ar, asn) = (Array1::from_vec(f.clone()), Array1::from_vec(rev), Array1::from_vec(st));
            let f32v: Array1<f32> = ar.mapv(|x| x as f32);
            obs.class(if pos == n - 1 { "long:nan-last" } else if pos == 0 { "long:nan-first" } else { "long:nan-inside" });
            for (what, g) in [
                ("contiguous", catch(|| conv(a.view().monotonic_prop()))),
                ("reversed-stride view", catch(|| conv(ar.slice(s![..;-1]).monotonic_prop()))),
                ("every-2nd view", catch(|| conv(asn.slice(s![..;2]).monotonic_prop()))),
                ("f32 reversed-stride view", catch(|| conv(f32v.slice(s![..;-1]).monotonic_prop()))),
            ] {
                obs.asserts += 1;
                match g {
                    Ok(Mono::Rising(_)) => fail!("nan-rising/long", "{what}: vector of length {n} (direction {dir}) with NaN at {pos} classified as Rising"),
                    Ok(_) => {}
                    Err(p) => fail!("panic", "monotonic_prop panicked: {p}"),
                }
            }
        } else {
            let f: Vec<f64> = v.iter().map(|&x| x as f64).collect();
            expect("f64", "long", &Array1::from_vec(f.clone()).view(), &f, obs)?;
            expect("i64", "long", &Array1::from_vec(v.clone()).view(), &v, obs)?;
            // the same relations at magnitudes where neighbouring integers are not distinguishable as f64 / f32
            let off: i64 = dir * (1i64 << src.usize_in(53, 61));
            let big: Vec<i64> = (0..n as i64).map(|i| off + dir * i).collect();
            let mut big = big;
            match kind {
                1 => big[pos] = big[pos - 1],
                2 => big[pos] = big[pos - 1] - dir,
                3 => {
                    big[pos] = big[pos - 1];
                    let p2 = (pos / 2).max(1);
                    big[p2] = big[p2 - 1] - dir;
                }
                _ => {}
            }
            obs.class("long:i64-beyond-2^53");
            expect("i64", "long-large-magnitude", &Array1::from_vec(big.clone()).view(), &big, obs)?;
            let big32: Vec<i32> = big.iter().take(2000).map(|&b| ((b - off) + dir * ((1i64 << 30) - 5000)) as i32).collect();
            expect("i32", "long-large-magnitude", &Array1::from_vec(big32.clone()).view(), &big32, obs)?;
            // strided view
            let mut st = vec![0f64; 2 * n];
            for (i, x) in f.iter().enumerate() {
                st[2 * i] = *x;
                st[2 * i + 1] = -1e9;
            }
            let sa = Array1::from_vec(st);
            expect("f64", "long-strided", &sa.slice(s![..;2]), &f, obs)?;
            // reversed strides: the memory holds the vector backwards
            let ra = Array1::from_vec(f.iter().rev().cloned().collect::<Vec<f64>>());
            expect("f64", "long-reversed", &ra.slice(s![..;-1]), &f, obs)?;
        }
        obs.nontrivial = kind != 0;
        obs.key(&(n, kind, pos, dir));
        obs.describe(|| json!({"length": n, "kind": kind, "irregularity_at": pos, "direction": dir}));
        Ok(())
    }
    fn rule(&self) -> String {
        "exhaustive part (complete): every word over {<,=,>} of length k <= 12 (797 162 words, both tiers) plus the \
         empty vector, realised with unit steps and with varying step sizes as f64, f32, i32, i64, as contiguous arrays, reversed-stride views and \
         every-2nd-element views; every non-empty subset of NaN positions on every word up to vector length 8 (f64, f32). Random part: vectors of \
         10^3..10^5 elements, strictly monotone except for one tie / one reversal / both / one NaN at a generated (mostly late) position. Oracle: \
         classification by counting relations; with NaN anything but Rising. Non-trivial: every word (all are distinct)."
            .into()
    }
    fn assumptions(&self) -> Vec<String> {
        vec!["exhaustive: true refers to the enumeration of relation words (and NaN placements up to length 8); the long-vector part is sampled".into()]
    }
    fn required_classes(&self, _t: Tier) -> Vec<&'static str> {
        vec!["len:0", "len:1", "len:2", "len:11", "nan-subsets", "long:one-tie", "long:one-reversal", "long:nan", "layout:reversed", "layout:every-2nd"]
    }
}

fn expect<E>(tn: &str, what: &str, a: &ArrayView1<E>, logical: &[E], obs: &mut Obs) -> Result<(), Fail>
where
    E: Debug + PartialOrd + num_traits::Num + num_traits::NumCast + Copy,
{
    let want = classify(logical);
    obs.asserts += 1;
    match catch(|| conv(a.monotonic_prop())) {
        Ok(g) if g == want => Ok(()),
        Ok(g) => {
            let show: Vec<&E> = logical.iter().take(14).collect();
            fail!(format!("misclassified/{want:?}-as-{g:?}"), "{tn} ({what}): vector {show:?}{} classified {g:?}, expected {want:?}", if logical.len() > 14 { " ..." } else { "" })
        }
        Err(p) => fail!("panic", "{tn} ({what}): monotonic_prop panicked: {p}"),
    }
}

fn layouts<E>(tn: &str, rn: &str, v: &[E], junk: E, obs: &mut Obs) -> Result<(), Fail>
where
    E: Debug + PartialOrd + num_traits::Num + num_traits::NumCast + Copy,
{
    let a = Array1::from_vec(v.to_vec());
    expect(tn, rn, &a.view(), v, obs)?;
    // reversed-stride view over reversed storage: same logical vector
    let mut rv = v.to_vec();
    rv.reverse();
    let ra = Array1::from_vec(rv);
    expect(tn, "reversed view", &ra.slice(s![..;-1]), v, obs)?;
    // every 2nd element of interleaved storage
    let mut st = Vec::with_capacity(2 * v.len());
    for &x in v {
        st.push(x);
        st.push(junk);
    }
    let sa = Array1::from_vec(st);
    expect(tn, "every-2nd view", &sa.slice(s![..;2]), v, obs)?;
    Ok(())
}

fn all_types(rn: &str, vals: &[i64], obs: &mut Obs) -> Result<(), Fail> {
    let f: Vec<f64> = vals.iter().map(|&v| v as f64 * 0.5).collect();
    layouts("f64", rn, &f, 1e300, obs)?;
    let f: Vec<f32> = vals.iter().map(|&v| v as f32 * 0.25).collect();
    layouts("f32", rn, &f, -1e30, obs)?;
    let f: Vec<i32> = vals.iter().map(|&v| v as i32).collect();
    layouts("i32", rn, &f, i32::MIN, obs)?;
    layouts("i64", rn, vals, i64::MAX, obs)?;
    obs.class("layout:reversed");
    obs.class("layout:every-2nd");
    Ok(())
}

fn nan_case<E>(tn: &str, a: &ArrayView1<E>, obs: &mut Obs, mask: u32, base: &[f64]) -> Result<(), Fail>
where
    E: Debug + PartialOrd + num_traits::Num + num_traits::NumCast + Copy,
{
    obs.asserts += 1;
    match catch(|| conv(a.monotonic_prop())) {
        Ok(Mono::Rising(s)) => fail!("nan-rising", "{tn}: vector {base:?} with NaN at positions {mask:#b} classified Rising{{strict: {s}}}"),
        Ok(_) => Ok(()),
        Err(p) => fail!("panic", "{tn}: monotonic_prop panicked on NaN data: {p}"),
    }
}
