//! Plain regression cases for the four defects found and repaired (D1-D4, see KNOWN_FINDINGS.txt).
//! Concrete inputs, no generators: they keep their meaning whatever happens to the decoders.

use crate::adapt::*;
use crate::common::*;
use crate::exact::Rat;
use crate::oracle::*;
use ndarray::{ArrayD, IxDyn, ShapeBuilder};
use ndarray_interp::BuilderError;

/// D1: right NotAKnot row on a non-uniform axis (cubic data must be reproduced; n=4 against the exact spline)
pub fn d1_notaknot_right() -> Result<(), Fail> {
    let x = [0.0, 1.0, 3.0, 4.0, 8.0];
    let p = |t: f64| t * t * t - 6.0 * t * t + 2.0 * t + 1.0;
    let y: Vec<f64> = x.iter().map(|&t| p(t)).collect();
    let i = match build1::<f64>(Some(arr_1(&x)), arr_d(&[5], &y), DDim::S1, &Strat1::Spline { extrapolate: false, bc: Bc::NotAKnot }) {
        Some(Ok(i)) => i,
        _ => return Err(Fail::new("build-failed", "d1: build failed")),
    };
    for q in [0.5, 2.0, 3.5, 6.0, 7.5] {
        let got = i.t_scalar(q).unwrap().map_err(|e| Fail::new("query-rejected", e))?;
        if (got - p(q)).abs() > 1e-9 * (1.0 + p(q).abs()) {
            return Err(Fail::new("values/NotAKnot|NotAKnot/cubic", format!("D1 regression: not-a-knot spline of cubic data on x={x:?}: S({q}) = {got}, cubic value {}", p(q))));
        }
    }
    let x4 = [-1.862645149230957e-9, -6.449946799760101e-10, 4.199115928988672e-10, 1.3512341675143457e-9];
    let y4 = [1.0, 0.0, 0.0, 0.0];
    let sp = Spline::solve(&x4, &y4, &Bounds::Ends(End::NotAKnot, End::NotAKnot)).map_err(|e| Fail::new("oracle-bug", e))?;
    let i = match build1::<f64>(Some(arr_1(&x4)), arr_d(&[4], &y4), DDim::S1, &Strat1::Spline { extrapolate: false, bc: Bc::NotAKnot }) {
        Some(Ok(i)) => i,
        _ => return Err(Fail::new("build-failed", "d1: build failed")),
    };
    let q = -1.5582325319172204e-9;
    let got = i.t_scalar(q).unwrap().map_err(|e| Fail::new("query-rejected", e))?;
    let want = sp.eval(0, &Rat::from_f64(q)).to_f64();
    if (got - want).abs() > 1e-9 {
        return Err(Fail::new("values/NotAKnot|NotAKnot/n4", format!("D1 regression (n=4, y=[1,0,0,0]): S({q:e}) = {got}, exact spline {want}")));
    }
    Ok(())
}

/// D2: dynamic-rank data with too few dimensions must give ShapeError, not a panic
pub fn d2_rank_too_small() -> Result<(), Fail> {
    let r = catch(|| build1::<f64>(None, ArrayD::from_elem(IxDyn(&[]), 1.0), DDim::Dyn, &Strat1::Linear { extrapolate: false }));
    match r {
        Ok(Some(Err(BuilderError::ShapeError(_)))) => {}
        Ok(Some(Err(e))) => return Err(Fail::new("wrong-error-kind", format!("D2 regression: rank-0 data gives {e:?}, expected ShapeError"))),
        Ok(Some(Ok(_))) => return Err(Fail::new("invalid-accepted", "D2 regression: rank-0 data accepted")),
        Ok(None) => return Err(Fail::new("oracle-bug", "inexpressible")),
        Err(p) => return Err(Fail::new("panic/viol:rank", format!("D2 regression: Interp1DBuilder on rank-0 IxDyn data panicked: {p}"))),
    }
    for shape in [vec![], vec![3usize]] {
        let n: usize = shape.iter().product();
        let r = catch(|| build2::<f64>(None, None, ArrayD::from_shape_vec(IxDyn(&shape), vec![1.0; n.max(1)][..n.max(if shape.is_empty() { 1 } else { n })].to_vec()).unwrap(), DDim::Dyn, false));
        match r {
            Ok(Some(Err(BuilderError::ShapeError(_)))) => {}
            Ok(Some(Err(e))) => return Err(Fail::new("wrong-error-kind/2d", format!("D2 regression: rank-{} data gives {e:?}, expected ShapeError", shape.len()))),
            Ok(Some(Ok(_))) => return Err(Fail::new("invalid-accepted/2d", "D2 regression: data of rank < 2 accepted by Interp2D")),
            Ok(None) => return Err(Fail::new("oracle-bug", "inexpressible")),
            Err(p) => return Err(Fail::new("panic/2d/viol:rank", format!("D2 regression: Interp2DBuilder on rank-{} IxDyn data panicked: {p}", shape.len()))),
        }
    }
    Ok(())
}

fn lin2() -> Box<dyn I1<f64>> {
    // data (4, 2, 3)
    let data: Vec<f64> = (0..24).map(|v| (v * v % 17) as f64).collect();
    match build1::<f64>(None, arr_d(&[4, 2, 3], &data), DDim::S3, &Strat1::Linear { extrapolate: false }) {
        Some(Ok(i)) => i,
        _ => panic!("regression setup"),
    }
}

/// D3: a correctly shaped Fortran-order / strided buffer on the per-element path must be accepted
pub fn d3_nonstandard_buffer() -> Result<(), Fail> {
    let i = lin2();
    let q = ArrayD::from_shape_vec(IxDyn(&[2, 2]), vec![0.5, 1.25, 2.0, 2.75]).unwrap();
    let want = i.t_array(q.view(), QDim::S2).unwrap().map_err(|e| Fail::new("query-rejected", e))?;
    let mut f = ArrayD::from_elem(IxDyn(&[2, 2, 2, 3]).f(), -1.0);
    let r = catch(|| i.t_array_into(q.view(), QDim::S2, f.view_mut()));
    match r {
        Ok(Some(Ok(()))) => {}
        other => return Err(Fail::new("layout-dependence/failure/buffer:F", format!("D3 regression: interp_array_into with a correctly shaped Fortran-order buffer: {:?}", other.map(|o| o.map(|r| r.map(|_| ()))))))
    }
    if to_arr(&f).v != want.v {
        return Err(Fail::new("layout-dependence/values/buffer:F", "D3 regression: Fortran-order buffer holds other values than the allocating variant"));
    }
    let mut big = ArrayD::from_elem(IxDyn(&[2, 2, 2, 6]), -1.0);
    let r = catch(|| {
        let mut w = big.view_mut();
        w.slice_axis_inplace(ndarray::Axis(3), ndarray::Slice::new(0, None, 2));
        i.t_array_into(q.view(), QDim::Dyn, w)
    });
    if !matches!(r, Ok(Some(Ok(())))) {
        return Err(Fail::new("layout-dependence/failure/buffer:strided", "D3 regression: interp_array_into with a correctly shaped strided buffer failed"));
    }
    Ok(())
}

/// D4: wrongly shaped buffers on the per-element path (right element count per query, or empty query) must panic
pub fn d4_wrong_shape_accepted() -> Result<(), Fail> {
    let i = lin2();
    let q = ArrayD::from_shape_vec(IxDyn(&[2, 2]), vec![0.5, 1.25, 2.0, 2.75]).unwrap();
    for (bs, what) in [(vec![3usize, 2, 2, 3], "(3,2,2,3) for (2,2,2,3)"), (vec![2, 2, 3, 2], "(2,2,3,2) for (2,2,2,3)"), (vec![2, 2, 6], "(2,2,6) dynamic rank")] {
        let mut b = ArrayD::from_elem(IxDyn(&bs), -1.0);
        let dynq = bs.len() != 4;
        let r = catch(|| i.t_array_into(q.view(), if dynq { QDim::Dyn } else { QDim::S2 }, b.view_mut()));
        match r {
            Err(_) => {}
            Ok(None) => {}
            Ok(Some(r)) => return Err(Fail::new("wrong-shape-accepted", format!("D4 regression: buffer {what} did not panic: {:?}", r))),
        }
    }
    let qe = ArrayD::from_shape_vec(IxDyn(&[2, 0]), vec![]).unwrap();
    let mut b = ArrayD::from_elem(IxDyn(&[1, 0, 2, 3]), -1.0);
    let r = catch(|| i.t_array_into(qe.view(), QDim::S2, b.view_mut()));
    if let Ok(Some(Ok(()))) = r {
        return Err(Fail::new("wrong-shape-accepted/empty-query", "D4 regression: empty query [2,0] with buffer [1,0,2,3] returned Ok"));
    }
    let q1 = ArrayD::from_shape_vec(IxDyn(&[0]), vec![]).unwrap();
    let mut b = ArrayD::from_elem(IxDyn(&[0, 3, 3]), -1.0);
    let r = catch(|| i.t_array_into(q1.view(), QDim::S1, b.view_mut()));
    if let Ok(Some(Ok(()))) = r {
        return Err(Fail::new("wrong-shape-accepted/empty-query", "D4 regression: empty rank-1 query with wrong trailing dims returned Ok"));
    }
    Ok(())
}

/// D5: libm `pow(h, 2)` is not exactly homogeneous under power-of-two scaling of the axis, so the
/// not-a-knot / SecondDeriv rows changed a last bit when the axis unit changed (C15, exact clause)
pub fn d5_pow_not_scale_invariant() -> Result<(), Fail> {
    let xb: [u64; 12] = [0x0, 0x3fd62cdcb4d5daab, 0x3fe1286d24946a42, 0x3ff4dce11ebc3793, 0x400c96e98c84a844, 0x40114cdde3f6ab81, 0x4012d1e83e32d191, 0x401864f82d6d6686,
        0x401b1cd2bf69442d, 0x401c5b8ff4bb8a8a, 0x401f5d759b0ea55b, 0x4026000000000000];
    let x: Vec<f64> = xb.iter().map(|&b| f64::from_bits(b)).collect();
    // data Ix4 of shape (12, 2, 1, 1) as in the case found (whether rustc folds `pow(h, 2.0)` into a
    // product depends on the instantiation: with Ix1 data it does, and the defect is invisible)
    let mut y = vec![0.0; 24];
    y[20] = 7.0;
    y[21] = 7.0;
    let q = f64::from_bits(0x4026000000000001);
    let f = 2048.0;
    let eval = |xs: &[f64], q: f64| -> Result<f64, Fail> {
        match build1::<f64>(Some(arr_1(xs)), arr_d(&[12, 2, 1, 1], &y), DDim::S4, &Strat1::Spline { extrapolate: true, bc: Bc::NotAKnot }) {
            Some(Ok(i)) => i.t_interp(q).map(|a| a.v[0]).map_err(|e| Fail::new("query-rejected", e)),
            _ => Err(Fail::new("build-failed", "d5: build failed")),
        }
    };
    let a = eval(&x, q)?;
    let xs: Vec<f64> = x.iter().map(|v| v * f).collect();
    let b = eval(&xs, q * f)?;
    if a.to_bits() != b.to_bits() {
        return Err(Fail::new("exact-relation/rel:axis-pow2/Spline/NotAKnot", format!("D5 regression: axis and query x 2^11 changes the not-a-knot spline value from {a:e} to {b:e} (12 knots on [0,11], y = 7 at knot 10, q one ulp above the range)")));
    }
    Ok(())
}
