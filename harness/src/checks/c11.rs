//! C11 - segment lookup returns the bracketing interval for every axis and query.

use super::*;
use crate::adapt::*;
use crate::common::*;
use crate::fail;
use crate::gen::*;
use ndarray::{Array1, ArrayView1};
use ndarray_interp::vector_extensions::VectorExtensions;
use std::fmt::Debug;

pub struct C11;

fn exh_count() -> u64 {
    // all (L, g, r): L in 2..=40, g in 0..L-1, r in 0..L-1
    (2..=40u64).map(|l| (l - 1) * (l - 1)).sum()
}

impl Check for C11 {
    fn id(&self) -> &'static str {
        "C11"
    }
    fn entropy_len(&self) -> usize {
        300
    }
    fn cases(&self, tier: Tier) -> u64 {
        tier.pick(400_000, 10_000_000)
    }
    fn run_case(&self, src: &mut Src, obs: &mut Obs) -> Result<(), Fail> {
        match src.weighted(&[5, 2, 2, 2]) {
            0 => run_float::<f64>(src, obs),
            1 => run_float::<f32>(src, obs),
            2 => run_int::<i32>(src, obs, "i32"),
            _ => run_int::<i64>(src, obs, "i64"),
        }
    }
    fn enum_count(&self, _tier: Tier) -> u64 {
        exh_count()
    }
    fn run_enum(&self, index: u64, _tier: Tier, obs: &mut Obs) -> Result<(), Fail> {
        let mut i = index;
        for l in 2..=40u64 {
            let c = (l - 1) * (l - 1);
            if i < c {
                let (g, r) = (i / (l - 1), i % (l - 1));
                exhaustive::<f64>(l as usize, g as usize, r as usize, obs)?;
                exhaustive::<f32>(l as usize, g as usize, r as usize, obs)?;
                obs.nontrivial = g != r;
                obs.key(&(l, g, r));
                obs.describe(|| json!({"length": l, "initial_guess_index": g, "answer_index": r, "query": g as f64 + 0.5}));
                return Ok(());
            }
            i -= c;
        }
        Ok(())
    }
    fn enum_exhaustive(&self, _tier: Tier) -> bool {
        true
    }
    fn rule(&self) -> String {
        "bounded-exhaustive part (complete in every run): for every axis length L in 2..40, every initial-guess index g and every answer \
         index r an axis with ends 0 and L-1 (guess line of slope 1) whose interior knots are placed so that exactly r+1 knots are <= q = g+1/2, \
         queried at q, at the two knots around q, and one ulp inside them, in f64 and f32 (21 620 (L,g,r) triples). Random part: f64/f32/i32/i64 \
         axes of 2..10^4 knots: uniform, geometric, logarithmic, knots a few ulps apart, mixed magnitudes 1e-290..1e300; queries: every knot and \
         both neighbouring floats (n <= 64, sampled above), midpoints, random, +-inf, +-MAX, +-0, beyond both ends; through get_lower_index and \
         (floats) Interp1D / Interp2D::get_index_left_of. Oracle: linear scan; result <= n-2; no panic. Non-trivial: the initial guess differs from \
         the answer (the fallback search runs) or the query is a knot / adjacent to one / at an end."
            .into()
    }
    fn assumptions(&self) -> Vec<String> {
        vec![
            "precondition of the property enforced by construction: span and (len-1)/span finite; integer spans below overflow; NaN queries excluded (documented unimplemented!)".into(),
            "exhaustive: true refers to the (L<=40, guess, rank) enumeration only".into(),
        ]
    }
    fn required_classes(&self, _t: Tier) -> Vec<&'static str> {
        vec!["T:f64", "T:f32", "T:i32", "T:i64", "lookup:guess-wrong", "lookup:guess-right", "axis11:mixed", "axis11:clustered", "axis11:log", "q11:inf", "q11:max", "q11:zero", "via:interp1d", "via:interp2d"]
    }
}

pub fn scan<E: PartialOrd + Copy>(x: &[E], q: E) -> usize {
    let n = x.len();
    if q <= x[0] {
        return 0;
    }
    if q >= x[n - 1] {
        return n - 2;
    }
    let mut i = 0;
    for k in 0..n - 1 {
        if x[k] <= q {
            i = k;
        } else {
            break;
        }
    }
    i
}

fn look<E>(x: &ArrayView1<E>, q: E) -> Result<usize, String>
where
    E: Debug + PartialOrd + num_traits::Num + num_traits::NumCast + Copy,
{
    catch(|| x.get_lower_index(q))
}

fn check_one<E>(tn: &str, xs: &[E], xv: &ArrayView1<E>, q: E, what: &str, obs: &mut Obs) -> Result<(), Fail>
where
    E: Debug + PartialOrd + num_traits::Num + num_traits::NumCast + Copy,
{
    let want = scan(xs, q);
    obs.asserts += 1;
    match look(xv, q) {
        Err(p) => fail!(format!("panic/{what}"), "{tn}: get_lower_index({q:?}) panicked on an axis of {} knots [{:?} .. {:?}]: {p}", xs.len(), xs[0], xs[xs.len() - 1]),
        Ok(i) => {
            if i != want {
                let lo = want.saturating_sub(1);
                let hi = (want + 3).min(xs.len());
                fail!(format!("wrong-interval/{what}"), "{tn}: get_lower_index({q:?}) = {i}, bracketing interval is {want} (n = {}, knots[{lo}..{hi}] = {:?})", xs.len(), &xs[lo..hi]);
            }
        }
    }
    Ok(())
}

fn exhaustive<T: Flt>(l: usize, g: usize, r: usize, obs: &mut Obs) -> Result<(), Fail> {
    let q = g as f64 + 0.5;
    let mut x = vec![0f64; l];
    x[l - 1] = (l - 1) as f64;
    // r interior knots in (0, q], the rest in (q, L-1)
    let r = r.min(l - 2);
    for j in 1..=r {
        x[j] = q * j as f64 / (r + 1) as f64 + if j == r { 0.0 } else { 0.0 };
    }
    let rest = l - 2 - r;
    for m in 1..=rest {
        x[r + m] = q + ((l - 1) as f64 - q) * m as f64 / (rest + 1) as f64;
    }
    let xt: Vec<T> = x.iter().map(|&v| T::of(v)).collect();
    // strictly increasing after rounding? (f32 with L <= 40: yes by spacing; assert to be safe)
    if !xt.windows(2).all(|w| w[0] < w[1]) {
        return Err(Fail::new("oracle-bug", format!("exhaustive axis not strictly increasing L={l} g={g} r={r}")));
    }
    let arr = Array1::from_vec(xt.clone());
    let v = arr.view();
    let qs = [T::of(q), xt[r], xt[r].up(), xt[r + 1], xt[r + 1].down()];
    for qq in qs {
        check_one::<T>(T::NAME, &xt, &v, qq, "exhaustive", obs)?;
    }
    obs.class(if g == r { "lookup:guess-right" } else { "lookup:guess-wrong" });
    Ok(())
}

fn run_float<T: Flt>(src: &mut Src, obs: &mut Obs) -> Result<(), Fail> {
    obs.class(format!("T:{}", T::NAME));
    let n = match src.weighted(&[6, 3, 1]) {
        0 => src.usize_in(2, 64),
        1 => src.usize_in(65, 1000),
        _ => src.usize_in(1001, 10_000),
    };
    let (cls, x): (&str, Vec<f64>) = match src.below(8) {
        0 => ("axis11:uniform", axis::<T>(src, n, AxisClass::Uniform, None)),
        // the classes that look like the index axis in places (ends, first step, most knots), symmetric, dyadic, jittered
        6 if n <= 300 => {
            let c = src.pick(&[AxisClass::Anchored, AxisClass::Anchored, AxisClass::Symmetric, AxisClass::Dyadic, AxisClass::Jittered, AxisClass::Unit]);
            ("axis11:index-like", axis::<T>(src, n, c, None))
        }
        7 if n >= 4 => {
            // the index axis 0..n-1 with interior knots displaced (0, 1 and n-1 stay)
            let mut v: Vec<f64> = (0..n).map(|i| i as f64).collect();
            for _ in 0..src.usize_in(1, 3) {
                let j = src.usize_in(2, n - 2);
                let cand = j as f64 + src.pick(&[0.5, -0.5, 0.25, -0.25, 0.75, -0.75]);
                if cand > v[j - 1] && cand < v[j + 1] {
                    v[j] = cand;
                }
            }
            ("axis11:index-displaced", v)
        }
        1 => ("axis11:geometric", axis::<T>(src, n, AxisClass::Geometric, None)),
        2 => {
            // logarithmic
            let s = 2f64.powi(src.int_in(-20, 20) as i32);
            let off = (src.unit() - 0.5) * s;
            let mut v: Vec<f64> = (0..n).map(|i| off + s * ((i + 1) as f64).ln()).collect();
            fix::<T>(&mut v);
            ("axis11:log", v)
        }
        3 => ("axis11:clustered", axis::<T>(src, n, AxisClass::Clustered, None)),
        4 => {
            // mixed magnitudes: increments with exponents over the whole usable range
            let (emin, emax) = if T::MANT == 53 { (-960, 990) } else { (-100, 110) };
            let neg_start = src.bool();
            let mut cur = if neg_start { -2f64.powi(src.int_in(emin as i64, emax as i64) as i32) } else { 0.0 };
            let mut v = vec![cur];
            for _ in 1..n {
                let e = src.int_in(emin as i64, emax as i64) as i32;
                let nx = T::of(cur + (1.0 + src.unit()) * 2f64.powi(e)).f();
                cur = if nx > cur && nx.is_finite() { nx } else { T::of(cur).up().f() };
                v.push(cur);
            }
            fix::<T>(&mut v);
            ("axis11:mixed", v)
        }
        _ => ("axis11:random", axis::<T>(src, n, AxisClass::Random, None)),
    };
    obs.class(cls);
    let xt: Vec<T> = x.iter().map(|&v| T::of(v)).collect();
    if !xt.iter().all(|v| v.is_finite()) || !xt.windows(2).all(|w| w[0] < w[1]) {
        return Ok(()); // generator could not keep the axis finite: not a case
    }
    // precondition of the property: span and (len-1)/span finite
    let span = xt[n - 1] - xt[0];
    let quot = T::of((n - 1) as f64) / span;
    if !span.is_finite() || !quot.is_finite() {
        obs.class("precondition-excluded");
        return Ok(());
    }
    let arr = Array1::from_vec(xt.clone());
    // the axis as a contiguous array, as a reversed-stride view (memory holds it backwards) or as every second element
    let rev_store = Array1::from_vec(xt.iter().rev().cloned().collect::<Vec<T>>());
    let mut st = vec![T::of(-1e30); 2 * n];
    for (i, k) in xt.iter().enumerate() {
        st[2 * i] = *k;
    }
    let str_store = Array1::from_vec(st);
    let v = match src.below(4) {
        0 => {
            obs.class("axis11:reversed-stride-view");
            rev_store.slice(ndarray::s![..;-1])
        }
        1 => {
            obs.class("axis11:strided-view");
            str_store.slice(ndarray::s![..;2])
        }
        _ => arr.view(),
    };
    // via the interpolators
    let via = src.below(8);
    let i1 = if via == 0 {
        obs.class("via:interp1d");
        match build1::<T>(Some(arr.clone()), arr_d::<T>(&[n], &vec![0.0; n]), DDim::S1, &Strat1::Linear { extrapolate: true }) {
            Some(Ok(i)) => Some(i),
            _ => fail!("build-failed", "valid axis rejected"),
        }
    } else {
        None
    };
    let i2 = if via == 1 && n <= 200 {
        obs.class("via:interp2d");
        match build2::<T>(Some(arr.clone()), Some(arr.clone()), arr_d::<T>(&[n, n], &vec![0.0; n * n]), DDim::S2, true) {
            Some(Ok(i)) => Some(i),
            _ => fail!("build-failed", "valid axes rejected"),
        }
    } else {
        None
    };
    let mut qs: Vec<(T, &'static str)> = Vec::new();
    if n <= 64 {
        for &k in &xt {
            qs.push((k, "q11:knot"));
            qs.push((k.up(), "q11:knot+ulp"));
            qs.push((k.down(), "q11:knot-ulp"));
        }
    }
    for _ in 0..src.usize_in(8, 40) {
        let i = src.below(n as u64 - 1) as usize;
        match src.below(5) {
            0 => qs.push((xt[i], "q11:knot")),
            1 => qs.push((xt[i + 1].down(), "q11:knot-ulp")),
            2 => qs.push((xt[i].up(), "q11:knot+ulp")),
            3 => qs.push((T::of(x[i] * 0.5 + x[i + 1] * 0.5), "q11:mid")),
            _ => qs.push((T::of(x[i] + (x[i + 1] - x[i]) * src.unit()), "q11:random")),
        }
    }
    for s in [T::infinity(), T::neg_infinity()] {
        qs.push((s, "q11:inf"));
    }
    for s in [T::max_value(), -T::max_value()] {
        qs.push((s, "q11:max"));
    }
    for s in [T::zero(), -T::zero()] {
        qs.push((s, "q11:zero"));
    }
    qs.push((xt[0].down(), "q11:below"));
    qs.push((xt[n - 1].up(), "q11:above"));
    let mut nontrivial = false;
    for (k, &(q, qc)) in qs.iter().enumerate() {
        if q.is_nan() {
            continue;
        }
        if k % 7 == 0 {
            obs.class(qc);
        }
        check_one::<T>(T::NAME, &xt, &v, q, cls, obs)?;
        let want = scan(&xt, q);
        if let Some(i) = &i1 {
            obs.asserts += 1;
            match catch(|| i.t_index_left_of(q)) {
                Ok(r) if r == want => {}
                Ok(r) => fail!("wrong-interval/interp1d", "Interp1D::get_index_left_of({:e}) = {r}, expected {want}", q.f()),
                Err(p) => fail!("panic/interp1d", "Interp1D::get_index_left_of({:e}) panicked: {p}", q.f()),
            }
        }
        if let Some(i) = &i2 {
            obs.asserts += 1;
            let q2 = qs[(k * 7 + 3) % qs.len()].0;
            let want2 = scan(&xt, q2);
            match catch(|| i.t_index_left_of(q, q2)) {
                Ok(r) if r == (want, want2) => {}
                Ok(r) => fail!("wrong-interval/interp2d", "Interp2D::get_index_left_of({:e},{:e}) = {r:?}, expected ({want},{want2})", q.f(), q2.f()),
                Err(p) => fail!("panic/interp2d", "Interp2D::get_index_left_of panicked: {p}"),
            }
        }
        // guess of the implementation (same formula, for classification only)
        let guess = (((n - 1) as f64) / (x[n - 1] - x[0]) * (q.f() - x[0])) as usize;
        if q > xt[0] && q < xt[n - 1] {
            if guess != want {
                nontrivial = true;
                if k % 5 == 0 {
                    obs.class("lookup:guess-wrong");
                }
            } else if k % 5 == 0 {
                obs.class("lookup:guess-right");
            }
        }
        if qc != "q11:random" && qc != "q11:mid" {
            nontrivial = true;
        }
    }
    obs.nontrivial = nontrivial;
    if nontrivial {
        obs.key_f64s(&x);
    }
    obs.describe(|| json!({"T": T::NAME, "n": n, "axis_class": cls, "x": ffs::<T>(&x, 6), "queries": qs.len()}));
    Ok(())
}

fn fix<T: Flt>(v: &mut [f64]) {
    for i in 0..v.len() {
        let mut x = T::of(v[i]);
        if i > 0 {
            let p = T::of(v[i - 1]);
            if !(x > p) {
                x = p.up();
            }
        }
        v[i] = x.f();
    }
}

trait IntLike: Debug + PartialOrd + num_traits::PrimInt + num_traits::NumCast + Copy + Send + Sync + 'static {}
impl IntLike for i32 {}
impl IntLike for i64 {}

fn run_int<E: IntLike>(src: &mut Src, obs: &mut Obs, tn: &'static str) -> Result<(), Fail> {
    obs.class(format!("T:{tn}"));
    let n = if src.chance(1, 10) { src.usize_in(65, 3000) } else { src.usize_in(2, 64) };
    // steps bounded so that the span stays far from overflow
    let maxstep: i64 = match src.below(3) {
        0 => 1,
        1 => 10,
        _ => 100_000,
    };
    let mut cur: i64 = src.int_in(-1000, 1000);
    let mut xi: Vec<i64> = vec![cur];
    for _ in 1..n {
        cur += 1 + src.below(maxstep as u64) as i64;
        xi.push(cur);
    }
    obs.class(match maxstep {
        1 => "axis11:int-unit",
        10 => "axis11:int-small-steps",
        _ => "axis11:int-large-steps",
    });
    let xt: Vec<E> = xi.iter().map(|&v| num_traits::cast::<i64, E>(v).unwrap()).collect();
    let arr = Array1::from_vec(xt.clone());
    let v = arr.view();
    let mut qs: Vec<i64> = Vec::new();
    if n <= 64 {
        for &k in &xi {
            qs.extend([k - 1, k, k + 1]);
        }
    }
    for _ in 0..24 {
        let i = src.below(n as u64) as usize;
        qs.push(xi[i] + src.int_in(-2, 2));
        qs.push(src.int_in(xi[0] - 5, xi[n - 1] + 5));
    }
    qs.extend([0, xi[0] - 1_000_000, xi[n - 1] + 1_000_000]);
    for q in qs {
        let q: E = num_traits::cast::<i64, E>(q).unwrap();
        check_one::<E>(tn, &xt, &v, q, "int", obs)?;
    }
    for q in [E::max_value(), E::min_value()] {
        // (x - x0) overflows for extreme queries only if evaluated: both are outside the range and must return early
        check_one::<E>(tn, &xt, &v, q, "int-extreme", obs)?;
    }
    obs.nontrivial = true;
    obs.key(&xi);
    obs.describe(|| json!({"T": tn, "n": n, "x": xi.iter().take(8).collect::<Vec<_>>(), "max_step": maxstep}));
    Ok(())
}
