//! C09 - all query entry points agree and results have shape query ++ trailing data dims.

use super::c04::Grid;
use super::*;
use crate::adapt::*;
use crate::common::*;
use crate::fail;
use crate::gen::*;
use crate::gen1d::*;
use crate::splinegen::*;
use ndarray::{ArrayD, IxDyn};

pub struct C09;

const QD: [(QDim, usize); 10] = [
    (QDim::S0, 0), (QDim::S1, 1), (QDim::S2, 2), (QDim::S3, 3), (QDim::S4, 4),
    (QDim::Dyn, 0), (QDim::Dyn, 1), (QDim::Dyn, 2), (QDim::Dyn, 3), (QDim::Dyn, 4),
];
const DD1: [(DDim, usize); 13] = [
    (DDim::S1, 1), (DDim::S2, 2), (DDim::S3, 3), (DDim::S4, 4), (DDim::S5, 5), (DDim::S6, 6),
    (DDim::Dyn, 1), (DDim::Dyn, 2), (DDim::Dyn, 3), (DDim::Dyn, 4), (DDim::Dyn, 5), (DDim::Dyn, 6), (DDim::Dyn, 7),
];
const DD2: [(DDim, usize); 11] = [
    (DDim::S2, 2), (DDim::S3, 3), (DDim::S4, 4), (DDim::S5, 5), (DDim::S6, 6),
    (DDim::Dyn, 2), (DDim::Dyn, 3), (DDim::Dyn, 4), (DDim::Dyn, 5), (DDim::Dyn, 6), (DDim::Dyn, 7),
];

fn cells() -> usize {
    QD.len() * (2 * DD1.len() + DD2.len())
}

impl Check for C09 {
    fn id(&self) -> &'static str {
        "C09"
    }
    fn entropy_len(&self) -> usize {
        400
    }
    fn cases(&self, _tier: Tier) -> u64 {
        0
    }
    fn run_case(&self, _src: &mut Src, _obs: &mut Obs) -> Result<(), Fail> {
        Ok(())
    }
    fn enum_count(&self, tier: Tier) -> u64 {
        cells() as u64 * tier.pick(600, 20000)
    }
    fn run_enum(&self, index: u64, _tier: Tier, obs: &mut Obs) -> Result<(), Fail> {
        let cell = (index % cells() as u64) as usize;
        let ent = derived_entropy(0xC09, index, 400);
        let mut src = Src::new(&ent);
        let (qd, qrank) = QD[cell % QD.len()];
        let rest = cell / QD.len();
        let f32_ = src.chance(1, 5);
        if rest < 2 * DD1.len() {
            let (dd, drank) = DD1[rest % DD1.len()];
            let spline = rest >= DD1.len();
            if f32_ {
                run1::<f32>(&mut src, obs, qd, qrank, dd, drank, spline)
            } else {
                run1::<f64>(&mut src, obs, qd, qrank, dd, drank, spline)
            }
        } else {
            let (dd, drank) = DD2[rest - 2 * DD1.len()];
            if f32_ {
                run2::<f32>(&mut src, obs, qd, qrank, dd, drank)
            } else {
                run2::<f64>(&mut src, obs, qd, qrank, dd, drank)
            }
        }
    }
    fn enum_exhaustive(&self, _tier: Tier) -> bool {
        false
    }
    fn rule(&self) -> String {
        format!("instantiation matrix enumerated completely in every run: query dim type {{Ix0..Ix4, IxDyn of rank 0..4}} x data dim type {{Ix1..Ix6, IxDyn of \
         rank 1..7}} x {{Interp1D-Linear, Interp1D-CubicSpline, Interp2D-Bilinear (data rank >= 2)}} = {} cells, each with 600 (quick) / 20000 \
         (thorough) random data sets whose entropy is derived from (seed, index). Axis lengths of queries and trailing data axes include 0; query \
         elements are pairwise distinct. Oracle: result shape == query shape ++ trailing dims; result[idx] bit-identical to interp(q[idx]) for \
         every multi-index; interp_scalar == interp on 1-D/2-D data; interp_into / interp_array_into into a poisoned buffer bit-identical to the \
         allocating variants; an out-of-range element turns every batch entry point into Err. Non-trivial: query rank >= 2 or dynamic, combined \
         rank > 6, or a zero-length axis.", cells())
    }
    fn assumptions(&self) -> Vec<String> {
        vec!["all comparisons are between results of the same interpolator value (bitwise)".into(),
             "the matrix of dimension types is complete for the listed types; inside a cell the data are sampled".into()]
    }
    fn required_classes(&self, _t: Tier) -> Vec<&'static str> {
        vec!["query:axis-prefix", "query:nonstandard-layout", "zero-length-query-axis", "zero-length-trailing-axis", "combined-rank>6", "strat:Linear", "strat:Spline", "strat:Bilinear", "batch-with-bad-element"]
    }
    fn extra_coverage(&self) -> serde_json::Value {
        json!({"matrix_cells": cells()})
    }
}

fn poison<T: Flt>() -> T {
    T::of(-9.87654e30)
}

/// pairwise distinct in-range queries
fn distinct_queries<T: Flt>(src: &mut Src, x: &[f64], len: usize) -> Vec<T> {
    let mut out: Vec<T> = Vec::with_capacity(len);
    let (lo, hi) = (x[0], x[x.len() - 1]);
    for k in 0..len {
        let mut q = T::of(lo + (hi - lo) * ((k as f64 + src.unit()) / len as f64)).f().clamp(lo, hi);
        if src.chance(1, 6) {
            q = x[src.below(x.len() as u64) as usize];
        }
        let mut qt = T::of(q);
        // bounded search for an unused float (a range of a few ulps cannot hold many distinct queries)
        let mut tries = 0;
        while tries < 64 && out.iter().any(|o| o.key() == qt.key()) {
            qt = if qt.f() < hi { qt.up() } else { T::of(lo) };
            tries += 1;
        }
        out.push(qt);
    }
    out
}

fn shapes(src: &mut Src, obs: &mut Obs, qrank: usize, ntrail: usize) -> (Vec<usize>, Vec<usize>) {
    let mut qshape: Vec<usize> = (0..qrank).map(|_| if qrank == 1 { src.weighted(&[0, 3, 4, 2, 1, 1, 1, 1, 1, 1]) } else { src.weighted(&[0, 3, 4, 2, 1]) }).collect();
    let mut trailing: Vec<usize> = (0..ntrail).map(|_| src.weighted(&[0, 4, 4, 1])).collect();
    if qrank > 0 && src.chance(1, 10) {
        let k = src.below(qrank as u64) as usize;
        qshape[k] = 0;
        obs.class("zero-length-query-axis");
    }
    if ntrail > 0 && src.chance(1, 10) {
        let k = src.below(ntrail as u64) as usize;
        trailing[k] = 0;
        obs.class("zero-length-trailing-axis");
    }
    // keep the work bounded
    while product(&qshape) * product(&trailing) > 600 {
        if let Some(m) = trailing.iter_mut().chain(qshape.iter_mut()).filter(|v| **v > 1).max() {
            *m -= 1;
        } else {
            break;
        }
    }
    // rarely many lanes (with a small query)
    if ntrail > 0 && !trailing.contains(&0) && product(&qshape) <= 8 && src.chance(1, 40) {
        trailing[0] = src.usize_in(32, 70);
        obs.class("lanes:32+");
    }
    (qshape, trailing)
}

fn run1<T: Flt>(src: &mut Src, obs: &mut Obs, qd: QDim, qrank: usize, dd: DDim, drank: usize, spline: bool) -> Result<(), Fail> {
    obs.class(if spline { "strat:Spline" } else { "strat:Linear" });
    obs.class(format!("cell:q{}r{}/d{}r{}", qd.name(), qrank, dd.name(), drank));
    let (qshape, trailing) = shapes(src, obs, qrank, drank - 1);
    let lanes = product(&trailing);
    let n = src.usize_in(if spline { 3 } else { 2 }, 9);
    let qshape0 = qshape.clone();
    let _ = &qshape0;
    let class = axis_class(src);
    let x = axis::<T>(src, n, class, Some(6));
    let vc = val_class(src);
    let data = values::<T>(src, n * lanes, vc, 0);
    let strat = if spline {
        let bc = match src.below(4) {
            0 => BcSel::NotAKnot,
            1 => BcSel::Natural,
            2 => BcSel::Clamped,
            _ => BcSel::Individual((0..lanes).map(|_| lane_sel::<T>(src, 0, 1.0)).collect()),
        };
        StratSel::Spline(bc)
    } else {
        StratSel::Linear
    };
    let lay = crate::layout::pick_lay(src);
    let xlay = crate::layout::pick_lay(src);
    let c = Case1 { n, axis_class: class, x: x.clone(), trailing: trailing.clone(), lanes, data, dd, strat, lay, xlay };
    let interp = match catch(|| c.build::<T>(false)) {
        Ok(r) => r?,
        Err(p) => fail!("panic/build", "build panicked for data shape {:?}: {p}", c.shape()),
    };
    // rank-1 queries: in 1 of 8 cases the query starts with the complete axis (evaluation at the knots plus extra points)
    let mut qshape = qshape;
    let axis_prefix = qshape.len() == 1 && src.chance(1, 8);
    let qlen = if axis_prefix { n + src.usize_in(0, 3) } else { product(&qshape) };
    let axis_like = qshape.len() == 1 && !axis_prefix && n >= 3 && src.chance(1, 8);
    let very_long = qshape.len() == 1 && !axis_prefix && !axis_like && lanes <= 6 && src.chance(1, 150);
    let qlen = if very_long { src.usize_in(4097, 9000) } else if axis_like { n } else { qlen };
    let qs = if very_long {
        // block-wise processing of long batches: a small pool of points, cycled
        obs.class("query:very-long");
        qshape = vec![qlen];
        let pool = distinct_queries::<T>(src, &x, 16);
        (0..qlen).map(|k| pool[k % pool.len()]).collect()
    } else if axis_like {
        // n points, most of them the knots themselves
        obs.class("query:axis-like-batch");
        qshape = vec![n];
        axis_like_batch::<T>(src, &x).into_iter().map(|(q, _)| T::of(q)).collect()
    } else if axis_prefix {
        obs.class("query:axis-prefix");
        qshape = vec![qlen];
        let mut v: Vec<T> = x.iter().map(|&k| T::of(k)).collect();
        v.extend(distinct_queries::<T>(src, &x, qlen - n));
        v
    } else {
        distinct_queries::<T>(src, &x, qlen)
    };
    let mut qs = qs;
    if !axis_prefix && qs.len() >= 2 {
        match src.below(6) {
            0 => {
                qs.sort_by(|a, b| a.partial_cmp(b).unwrap());
                obs.class("query:ascending");
            }
            1 => {
                qs.sort_by(|a, b| b.partial_cmp(a).unwrap());
                obs.class("query:descending");
            }
            _ => {}
        }
    }
    let qlay = crate::layout::pick_lay(src);
    if qlay.0 != crate::layout::Layout::C {
        obs.class("query:nonstandard-layout");
    }
    let qa = crate::layout::realise(ArrayD::from_shape_vec(IxDyn(&qshape), qs.clone()).unwrap(), qlay, T::of(-4.0e4));
    let mut want = qshape.clone();
    want.extend_from_slice(&trailing);
    if want.len() > 6 {
        obs.class("combined-rank>6");
    }
    let r = match catch(|| interp.t_array(qa.view(), qd)) {
        Ok(Some(Ok(a))) => a,
        Ok(Some(Err(e))) => fail!("in-range-rejected", "interp_array rejected in-range queries: {e}"),
        Ok(None) => fail!("oracle-bug", "query rank does not fit its static type"),
        Err(p) => fail!("panic/interp_array", "interp_array q{}{:?} on data {}{:?} panicked: {p}", qd.name(), qshape, dd.name(), c.shape()),
    };
    obs.asserts += 1;
    if r.shape != want {
        fail!("result-shape", "interp_array: query {}{:?} on data {}{:?}: result shape {:?}, expected {:?}", qd.name(), qshape, dd.name(), c.shape(), r.shape, want);
    }
    // element-wise agreement with interp
    for (k, &q) in qs.iter().enumerate() {
        let single = match catch(|| interp.t_interp(q)) {
            Ok(Ok(a)) => a,
            Ok(Err(e)) => fail!("in-range-rejected", "interp({:e}) -> {e}", q.f()),
            Err(p) => fail!("panic/interp", "interp panicked: {p}"),
        };
        obs.asserts += 1;
        if single.shape != trailing {
            fail!("result-shape", "interp: shape {:?}, expected {:?}", single.shape, trailing);
        }
        for l in 0..lanes {
            if r.v[k * lanes + l].key() != single.v[l].key() {
                fail!("array-vs-interp", "query {}{:?} data {}{:?}: interp_array[{k}] lane {l} = {:e} but interp({:e}) = {:e}", qd.name(), qshape, dd.name(), c.shape(), r.v[k * lanes + l].f(), q.f(), single.v[l].f());
            }
        }
        if k == 0 {
            // interp_into
            let mut buf = ArrayD::from_elem(IxDyn(&trailing), poison::<T>());
            match catch(|| interp.t_interp_into(q, buf.view_mut())) {
                Ok(Some(Ok(()))) => {}
                Ok(Some(Err(e))) => fail!("in-range-rejected", "interp_into -> {e}"),
                Ok(None) => fail!("oracle-bug", "buffer rank"),
                Err(p) => fail!("panic/interp_into", "interp_into with a correctly shaped buffer {:?} panicked: {p}", trailing),
            }
            obs.asserts += 1;
            if buf.iter().map(|v| v.key()).ne(single.v.iter().map(|v| v.key())) {
                fail!("into-vs-alloc", "interp_into wrote {:?}, interp returned {:?}", to_arr(&buf).v, single.v);
            }
            if let Some(s) = interp.t_scalar(q) {
                obs.asserts += 1;
                match s {
                    Ok(v) if v.key() == single.v[0].key() => {}
                    other => fail!("scalar-vs-interp", "interp_scalar({:e}) = {:?}, interp = {:e}", q.f(), other.map(|v| v.f()), single.v[0].f()),
                }
            }
        }
    }
    // array_into
    let mut buf = ArrayD::from_elem(IxDyn(&want), poison::<T>());
    match catch(|| interp.t_array_into(qa.view(), qd, buf.view_mut())) {
        Ok(Some(Ok(()))) => {}
        Ok(Some(Err(e))) => fail!("in-range-rejected", "interp_array_into -> {e}"),
        Ok(None) => fail!("oracle-bug", "buffer rank"),
        Err(p) => fail!("panic/interp_array_into", "interp_array_into q{}{:?} data {}{:?} with a correctly shaped buffer {:?} panicked: {p}", qd.name(), qshape, dd.name(), c.shape(), want),
    }
    obs.asserts += 1;
    if buf.iter().map(|v| v.key()).ne(r.v.iter().map(|v| v.key())) {
        fail!("into-vs-alloc", "interp_array_into differs from interp_array for query {}{:?} data {}{:?}", qd.name(), qshape, dd.name(), c.shape());
    }
    // the query is a view into the allocation the axis (a strided view) lives in
    if qshape.len() == 1 && class != AxisClass::Index && src.chance(1, 8) {
        let mut t = vec![T::zero(); 2 * n - 1];
        for i in 0..n {
            t[2 * i] = T::of(x[i]);
            if i + 1 < n {
                t[2 * i + 1] = T::of(x[i] + (x[i + 1] - x[i]) * 0.5);
            }
        }
        if t.windows(2).all(|w| w[0] < w[1]) {
            obs.class("query:aliases-axis-allocation");
            let store = ndarray::Array1::from_vec(t);
            let xview = store.slice(ndarray::s![..;2]);
            let qalias = store.slice(ndarray::s![..n]);
            let data_c = ArrayD::from_shape_vec(IxDyn(&c.shape()), c.data.iter().map(|&v| T::of(v)).collect()).unwrap();
            let strat1 = c.strat1::<T>(false);
            let res = crate::adapt::with_interp1_xview::<T, Result<(), Fail>>(xview.view(), &data_c, dd, &strat1, &mut |i| {
                let arr = match catch(|| i.t_array(qalias.view().into_dyn(), qd)) {
                    Ok(Some(Ok(a))) => a,
                    Ok(Some(Err(e))) => fail!("in-range-rejected", "interp_array (query aliasing the axis allocation) -> {e}"),
                    Ok(None) => return Ok(()),
                    Err(p) => fail!("panic/interp_array", "interp_array with a query aliasing the axis allocation panicked: {p}"),
                };
                for k in 0..n {
                    let single = match catch(|| i.t_interp(qalias[k])) {
                        Ok(Ok(a)) => a,
                        _ => fail!("in-range-rejected", "interp({:e}) failed", qalias[k].f()),
                    };
                    obs.asserts += 1;
                    for l in 0..lanes {
                        if arr.v[k * lanes + l].key() != single.v[l].key() {
                            fail!("array-vs-interp/query-aliases-axis", "axis = every second element of an allocation, query = view of its first {n} elements: interp_array[{k}] lane {l} = {:e} but interp({:e}) = {:e}", arr.v[k * lanes + l].f(), qalias[k].f(), single.v[l].f());
                        }
                    }
                }
                Ok(())
            });
            if let Some(Ok(r)) = res {
                r?;
            }
        }
    }
    // one offending element: every batch entry point must fail as a whole
    if qlen > 0 && src.chance(1, 3) {
        let mut bad = qs.clone();
        let pos = src.below(qlen as u64) as usize;
        bad[pos] = T::of(x[n - 1]).up();
        let qb = ArrayD::from_shape_vec(IxDyn(&qshape), bad).unwrap();
        obs.class("batch-with-bad-element");
        obs.asserts += 1;
        match catch(|| interp.t_array(qb.view(), qd)) {
            Ok(Some(Err(_))) => {}
            Ok(Some(Ok(_))) => fail!("batch-error-swallowed", "interp_array returned Ok although element {pos} is out of range (query {}{:?})", qd.name(), qshape),
            Ok(None) => {}
            Err(p) => fail!("panic/interp_array", "interp_array with one out-of-range element panicked: {p}"),
        }
    }
    obs.nontrivial = qrank >= 2 || qd == QDim::Dyn || want.len() > 6 || qshape.contains(&0) || trailing.contains(&0);
    if obs.nontrivial {
        c.key(obs);
        obs.key(&(qd, qshape.clone()));
    }
    obs.describe(|| json!({"T": T::NAME, "query_dim": qd.name(), "query_shape": qshape, "data_dim": dd.name(), "data_shape": c.shape(), "strategy": c.strat.name(), "result_shape": want}));
    Ok(())
}

fn run2<T: Flt>(src: &mut Src, obs: &mut Obs, qd: QDim, qrank: usize, dd: DDim, drank: usize) -> Result<(), Fail> {
    obs.class("strat:Bilinear");
    obs.class(format!("cell:q{}r{}/d{}r{}/2d", qd.name(), qrank, dd.name(), drank));
    let (qshape, trailing) = shapes(src, obs, qrank, drank - 2);
    let lanes = product(&trailing);
    let nx = src.usize_in(2, 5);
    let ny = src.usize_in(2, 5);
    let (cx, cy) = (axis_class(src), axis_class(src));
    let x = axis::<T>(src, nx, cx, Some(6));
    let y = axis::<T>(src, ny, cy, Some(6));
    let vc = val_class(src);
    let data = values::<T>(src, nx * ny * lanes, vc, 0);
    let lay = crate::layout::pick_lay(src);
    let (xlay, ylay) = (crate::layout::pick_lay(src), crate::layout::pick_lay(src));
    let g = Grid { nx, ny, x: x.clone(), y: y.clone(), cx, cy, trailing: trailing.clone(), lanes, data, dd, lay, xlay, ylay };
    let interp = match catch(|| g.build::<T>(false)) {
        Ok(r) => r?,
        Err(p) => fail!("panic/build", "build panicked for data shape {:?}: {p}", g.shape()),
    };
    let qlen = product(&qshape);
    let xs = distinct_queries::<T>(src, &x, qlen);
    let mut ys = distinct_queries::<T>(src, &y, qlen);
    // decorrelate x and y order
    if qlen > 1 && src.bool() {
        ys.reverse();
    }
    let (qlx, qly) = (crate::layout::pick_lay(src), crate::layout::pick_lay(src));
    if qlx.0 != crate::layout::Layout::C || qly.0 != crate::layout::Layout::C {
        obs.class("query:nonstandard-layout");
    }
    let xa = crate::layout::realise(ArrayD::from_shape_vec(IxDyn(&qshape), xs.clone()).unwrap(), qlx, T::of(-4.0e4));
    let ya = crate::layout::realise(ArrayD::from_shape_vec(IxDyn(&qshape), ys.clone()).unwrap(), qly, T::of(-4.0e4));
    let mut want = qshape.clone();
    want.extend_from_slice(&trailing);
    if want.len() > 6 {
        obs.class("combined-rank>6");
    }
    let r = match catch(|| interp.t_array(xa.view(), ya.view(), qd)) {
        Ok(Some(Ok(a))) => a,
        Ok(Some(Err(e))) => fail!("in-range-rejected", "interp_array rejected in-range queries: {e}"),
        Ok(None) => fail!("oracle-bug", "query rank does not fit its static type"),
        Err(p) => fail!("panic/interp_array", "2-D interp_array q{}{:?} on data {}{:?} panicked: {p}", qd.name(), qshape, dd.name(), g.shape()),
    };
    obs.asserts += 1;
    if r.shape != want {
        fail!("result-shape", "2-D interp_array: query {}{:?} on data {}{:?}: result shape {:?}, expected {:?}", qd.name(), qshape, dd.name(), g.shape(), r.shape, want);
    }
    for k in 0..qlen {
        let single = match catch(|| interp.t_interp(xs[k], ys[k])) {
            Ok(Ok(a)) => a,
            Ok(Err(e)) => fail!("in-range-rejected", "interp -> {e}"),
            Err(p) => fail!("panic/interp", "2-D interp panicked: {p}"),
        };
        obs.asserts += 1;
        if single.shape != trailing {
            fail!("result-shape", "2-D interp: shape {:?}, expected {:?}", single.shape, trailing);
        }
        for l in 0..lanes {
            if r.v[k * lanes + l].key() != single.v[l].key() {
                fail!("array-vs-interp", "2-D query {}{:?} data {}{:?}: interp_array[{k}] lane {l} = {:e} but interp = {:e}", qd.name(), qshape, dd.name(), g.shape(), r.v[k * lanes + l].f(), single.v[l].f());
            }
        }
        if k == 0 {
            let mut buf = ArrayD::from_elem(IxDyn(&trailing), poison::<T>());
            match catch(|| interp.t_interp_into(xs[k], ys[k], buf.view_mut())) {
                Ok(Some(Ok(()))) => {}
                Ok(Some(Err(e))) => fail!("in-range-rejected", "interp_into -> {e}"),
                Ok(None) => fail!("oracle-bug", "buffer rank"),
                Err(p) => fail!("panic/interp_into", "2-D interp_into with a correctly shaped buffer panicked: {p}"),
            }
            obs.asserts += 1;
            if buf.iter().map(|v| v.key()).ne(single.v.iter().map(|v| v.key())) {
                fail!("into-vs-alloc", "2-D interp_into differs from interp");
            }
            if let Some(s) = interp.t_scalar(xs[k], ys[k]) {
                obs.asserts += 1;
                match s {
                    Ok(v) if v.key() == single.v[0].key() => {}
                    other => fail!("scalar-vs-interp", "2-D interp_scalar = {:?}, interp = {:e}", other.map(|v| v.f()), single.v[0].f()),
                }
            }
        }
    }
    let mut buf = ArrayD::from_elem(IxDyn(&want), poison::<T>());
    match catch(|| interp.t_array_into(xa.view(), ya.view(), qd, buf.view_mut())) {
        Ok(Some(Ok(()))) => {}
        Ok(Some(Err(e))) => fail!("in-range-rejected", "interp_array_into -> {e}"),
        Ok(None) => fail!("oracle-bug", "buffer rank"),
        Err(p) => fail!("panic/interp_array_into", "2-D interp_array_into q{}{:?} data {}{:?} with a correctly shaped buffer {:?} panicked: {p}", qd.name(), qshape, dd.name(), g.shape(), want),
    }
    obs.asserts += 1;
    if buf.iter().map(|v| v.key()).ne(r.v.iter().map(|v| v.key())) {
        fail!("into-vs-alloc", "2-D interp_array_into differs from interp_array for query {}{:?} data {}{:?}", qd.name(), qshape, dd.name(), g.shape());
    }
    // aliasing query arrays: xs and ys are two views of ONE allocation that start at the same element and have the same
    // shape but different strides (last axis: every element / every second element)
    let (lo, hi) = (x[0].max(y[0]), x[nx - 1].min(y[ny - 1]));
    if !qshape.is_empty() && qlen >= 2 && lo < hi && src.chance(1, 4) {
        obs.class("query:aliasing-xs-ys");
        let last = qshape.len() - 1;
        let mut big = qshape.clone();
        big[last] *= 2;
        let vals: Vec<T> = (0..product(&big)).map(|_| T::of(lo + (hi - lo) * src.unit())).map(|v| if v.f() < lo { T::of(lo) } else if v.f() > hi { T::of(hi) } else { v }).collect();
        let a = ArrayD::from_shape_vec(IxDyn(&big), vals).unwrap();
        let s = qshape[last];
        let xs_v = a.slice_axis(ndarray::Axis(last), ndarray::Slice::new(0, Some(s as isize), 1));
        let ys_v = a.slice_axis(ndarray::Axis(last), ndarray::Slice::new(0, Some(2 * s as isize), 2));
        let ra = match catch(|| interp.t_array(xs_v.view(), ys_v.view(), qd)) {
            Ok(Some(Ok(r))) => r,
            Ok(Some(Err(e))) => fail!("in-range-rejected", "interp_array (aliasing xs / ys) rejected in-range queries: {e}"),
            Ok(None) => fail!("oracle-bug", "query rank does not fit its static type"),
            Err(p) => fail!("panic/interp_array", "2-D interp_array with aliasing query views panicked: {p}"),
        };
        for (k, (&qx, &qy)) in xs_v.iter().zip(ys_v.iter()).enumerate() {
            let single = match catch(|| interp.t_interp(qx, qy)) {
                Ok(Ok(a)) => a,
                _ => fail!("in-range-rejected", "interp({:e}, {:e}) failed", qx.f(), qy.f()),
            };
            obs.asserts += 1;
            for l in 0..lanes {
                if ra.v[k * lanes + l].key() != single.v[l].key() {
                    fail!("array-vs-interp/aliasing-queries", "xs and ys are views of one allocation (same start, same shape {:?}, different strides): interp_array[{k}] lane {l} = {:e} but interp({:e}, {:e}) = {:e}; query dim {}", qshape,
                        ra.v[k * lanes + l].f(), qx.f(), qy.f(), single.v[l].f(), qd.name());
                }
            }
        }
    }
    if qlen > 0 && src.chance(1, 3) {
        let mut bad = ys.clone();
        let pos = src.below(qlen as u64) as usize;
        bad[pos] = T::of(y[ny - 1]).up();
        let yb = ArrayD::from_shape_vec(IxDyn(&qshape), bad).unwrap();
        obs.class("batch-with-bad-element");
        obs.asserts += 1;
        match catch(|| interp.t_array(xa.view(), yb.view(), qd)) {
            Ok(Some(Err(_))) => {}
            Ok(Some(Ok(_))) => fail!("batch-error-swallowed", "2-D interp_array returned Ok although y element {pos} is out of range"),
            Ok(None) => {}
            Err(p) => fail!("panic/interp_array", "2-D interp_array with one out-of-range element panicked: {p}"),
        }
    }
    obs.nontrivial = qrank >= 2 || qd == QDim::Dyn || want.len() > 6 || qshape.contains(&0) || trailing.contains(&0);
    if obs.nontrivial {
        g.key(obs);
        obs.key(&(qd, qshape.clone()));
    }
    obs.describe(|| json!({"T": T::NAME, "query_dim": qd.name(), "query_shape": qshape, "data_dim": dd.name(), "data_shape": g.shape(), "strategy": "Bilinear", "result_shape": want}));
    Ok(())
}
