//! C17 - an interpolator is immutable: answers do not depend on history or concurrency.

use super::c04::{query2, Grid};
use super::c05::{make_q, RQ};
use super::*;
use crate::adapt::*;
use crate::common::*;
use crate::fail;
use crate::gen::*;
use crate::gen1d::*;
use ndarray::{ArrayD, IxDyn};

pub struct C17;

impl Check for C17 {
    fn id(&self) -> &'static str {
        "C17"
    }
    fn entropy_len(&self) -> usize {
        1200
    }
    fn cases(&self, tier: Tier) -> u64 {
        tier.pick(6_000, 300_000)
    }
    fn run_case(&self, src: &mut Src, obs: &mut Obs) -> Result<(), Fail> {
        if src.chance(1, 12) {
            return run_int(src, obs);
        }
        let two_d = src.chance(1, 3);
        match (two_d, src.chance(1, 5)) {
            (false, false) => run::<f64>(src, obs, false),
            (false, true) => run::<f32>(src, obs, false),
            (true, false) => run::<f64>(src, obs, true),
            (true, true) => run::<f32>(src, obs, true),
        }
    }
    fn rule(&self) -> String {
        "operation histories of 1..60 calls over all entry points (interp_scalar, interp, interp_into, interp_array with Ix1 / Ix2 / IxDyn queries, \
         interp_array_into), mixing in-range queries, out-of-range queries (Err) and wrongly shaped buffers (panic, caught), for every strategy \
         (Linear, CubicSpline with all boundary selections incl. Periodic, Bilinear), with and without extrapolation. Oracle: the outcome of every \
         operation (Ok with result bits / Err / panic) must equal the outcome of the same operation on an interpolator freshly built for that \
         operation alone, when the history is executed (a) in order on one shared interpolator, (b) in a generated permutation, (c) split over 2..16 \
         scoped threads sharing &interpolator, each with its own sub-order, (d) in 1 of 8 histories: every thread runs the whole history 6 times in its own rotation (contention). Send + Sync of Interp1D / Interp2D over owned, view and shared storage \
         is asserted at compile time (static_c17 crate). Non-trivial: a failing operation followed by a succeeding one, >= 2 entry points, >= 2 threads."
            .into()
    }
    fn assumptions(&self) -> Vec<String> {
        vec![
            "the harness does not control the thread schedule: the threaded run would expose a racy cache only by luck; sequentially visible state is caught by (a)/(b)".into(),
            "bitwise comparison, same concrete type".into(),
        ]
    }
    fn required_classes(&self, _t: Tier) -> Vec<&'static str> {
        vec!["dim:1", "dim:2", "op:err", "op:panic", "op:ok", "threads:2-4", "threads:5-16", "history:fail-then-ok", "strat:Linear", "strat:Spline/Periodic", "strat:Spline/Individual", "axis:long(65..400)"]
    }
}

#[derive(Clone, Debug)]
enum Op<T> {
    Scalar(T, T),
    Interp(T, T),
    InterpInto(T, T, Vec<usize>),
    Array(Vec<usize>, Vec<T>, Vec<T>, QDim),
    ArrayInto(Vec<usize>, Vec<T>, Vec<T>, QDim, Vec<usize>),
}

#[derive(Clone, Debug, PartialEq)]
enum Outcome {
    Ok(Vec<usize>, Vec<u64>),
    Err,
    Panic,
}

enum Subject<'a, T: Flt> {
    One(&'a (dyn I1<T> + Send + Sync)),
    Two(&'a (dyn I2<T> + Send + Sync)),
}

/// integer element types (i64, also beyond 2^53 where neighbouring values are not distinguishable as f64; i32): Linear
/// histories of scalar and batch queries on one interpolator against a fresh interpolator per query
fn run_int(src: &mut Src, obs: &mut Obs) -> Result<(), Fail> {
    use ndarray::Array1;
    use ndarray_interp::interp1d::{Interp1DBuilder, Linear};
    obs.class("elem:integer");
    let big = src.chance(2, 3);
    obs.class(if big { "elem:i64-beyond-2^53" } else { "elem:i64-small" });
    let n = src.usize_in(3, 40);
    let t0: i64 = if big { (1i64 << src.usize_in(53, 61)) + src.int_in(0, 1000) } else { src.int_in(-50, 50) };
    let mut x = vec![t0];
    for _ in 1..n {
        let step = if src.bool() { src.int_in(1, 4) } else { src.int_in(50, 300) };
        x.push(x.last().unwrap() + step);
    }
    let y: Vec<i64> = (0..n).map(|_| src.int_in(-1000, 1000) * 500).collect();
    let extrapolate = src.chance(1, 4);
    let build = || Interp1DBuilder::new(Array1::from_vec(y.clone())).x(Array1::from_vec(x.clone())).strategy(Linear::new().extrapolate(extrapolate)).build();
    let shared = match build() {
        Ok(i) => i,
        Err(e) => fail!("build-failed", "valid i64 axis rejected: {e}; x = {:?}", x),
    };
    let nops = src.usize_in(4, 60);
    let mut prev: Option<i64> = None;
    for k in 0..nops {
        let i = src.below(n as u64 - 1) as usize;
        let q = match src.below(6) {
            0 => x[i],
            1 => x[i + 1] - 1,
            2 => x[i] + 1,
            3 => x[i] + (x[i + 1] - x[i]) / 2,
            // close to the previous query: another interval whose float image may coincide
            4 if prev.is_some() => (prev.unwrap() + src.int_in(-120, 120)).clamp(x[0], x[n - 1]),
            _ => x[i] + src.int_in(0, x[i + 1] - x[i]),
        }
        .clamp(x[0], x[n - 1]);
        prev = Some(q);
        let batch = src.chance(1, 4);
        let fresh = build().unwrap();
        obs.asserts += 1;
        if batch {
            let q2 = (q + src.int_in(-150, 150)).clamp(x[0], x[n - 1]);
            let qa = Array1::from_vec(vec![q, q2, q]);
            let got = catch(|| shared.interp_array(&qa).map(|a| a.to_vec()).map_err(|e| e.to_string()));
            let want: Vec<Result<i64, String>> = [q, q2, q].iter().map(|&v| build().unwrap().interp_scalar(v).map_err(|e| e.to_string())).collect();
            let want: Result<Vec<i64>, String> = want.into_iter().collect();
            if got != Ok(want.clone()) {
                fail!("history-dependence/integer-axis", "i64 Linear, x = {:?}..., operation {k}: interp_array({:?}) on the used interpolator gives {:?}, fresh interpolators give {:?}", &x[..n.min(6)], [q, q2, q], got, want);
            }
        } else {
            let got = catch(|| shared.interp_scalar(q).map_err(|e| e.to_string()));
            let want = fresh.interp_scalar(q).map_err(|e| e.to_string());
            if got != Ok(want.clone()) {
                fail!("history-dependence/integer-axis", "i64 Linear, x = {:?}..., operation {k}: interp_scalar({q}) on the used interpolator gives {:?}, a fresh interpolator gives {:?}", &x[..n.min(6)], got, want);
            }
        }
    }
    obs.nontrivial = true;
    obs.key(&(x.clone(), y.clone(), nops));
    obs.describe(|| json!({"elem": "i64", "x": x.iter().take(8).collect::<Vec<_>>(), "operations": nops}));
    Ok(())
}

fn exec<T: Flt>(s: &Subject<T>, op: &Op<T>) -> Outcome {
    let poison = T::of(4.2e-7);
    let r: Result<R<Arr<T>>, String> = catch(|| match (s, op) {
        (Subject::One(i), Op::Scalar(q, _)) => i.t_scalar(*q).unwrap().map(|v| Arr { shape: vec![], v: vec![v] }),
        (Subject::One(i), Op::Interp(q, _)) => i.t_interp(*q),
        (Subject::One(i), Op::InterpInto(q, _, bs)) => {
            let mut b = ArrayD::from_elem(IxDyn(bs), poison);
            match i.t_interp_into(*q, b.view_mut()) {
                Some(r) => r.map(|_| to_arr(&b)),
                None => Err("inexpressible".into()),
            }
        }
        (Subject::One(i), Op::Array(sh, qs, _, qd)) => {
            let qa = ArrayD::from_shape_vec(IxDyn(sh), qs.clone()).unwrap();
            i.t_array(qa.view(), *qd).unwrap()
        }
        (Subject::One(i), Op::ArrayInto(sh, qs, _, qd, bs)) => {
            let qa = ArrayD::from_shape_vec(IxDyn(sh), qs.clone()).unwrap();
            let mut b = ArrayD::from_elem(IxDyn(bs), poison);
            match i.t_array_into(qa.view(), *qd, b.view_mut()) {
                Some(r) => r.map(|_| to_arr(&b)),
                None => Err("inexpressible".into()),
            }
        }
        (Subject::Two(i), Op::Scalar(x, y)) => i.t_scalar(*x, *y).unwrap().map(|v| Arr { shape: vec![], v: vec![v] }),
        (Subject::Two(i), Op::Interp(x, y)) => i.t_interp(*x, *y),
        (Subject::Two(i), Op::InterpInto(x, y, bs)) => {
            let mut b = ArrayD::from_elem(IxDyn(bs), poison);
            match i.t_interp_into(*x, *y, b.view_mut()) {
                Some(r) => r.map(|_| to_arr(&b)),
                None => Err("inexpressible".into()),
            }
        }
        (Subject::Two(i), Op::Array(sh, xs, ys, qd)) => {
            let xa = ArrayD::from_shape_vec(IxDyn(sh), xs.clone()).unwrap();
            let ya = ArrayD::from_shape_vec(IxDyn(sh), ys.clone()).unwrap();
            i.t_array(xa.view(), ya.view(), *qd).unwrap()
        }
        (Subject::Two(i), Op::ArrayInto(sh, xs, ys, qd, bs)) => {
            let xa = ArrayD::from_shape_vec(IxDyn(sh), xs.clone()).unwrap();
            let ya = ArrayD::from_shape_vec(IxDyn(sh), ys.clone()).unwrap();
            let mut b = ArrayD::from_elem(IxDyn(bs), poison);
            match i.t_array_into(xa.view(), ya.view(), *qd, b.view_mut()) {
                Some(r) => r.map(|_| to_arr(&b)),
                None => Err("inexpressible".into()),
            }
        }
    });
    match r {
        Err(_) => Outcome::Panic,
        Ok(Err(_)) => Outcome::Err,
        Ok(Ok(a)) => Outcome::Ok(a.shape, a.v.iter().map(|v| v.key()).collect()),
    }
}

fn run<T: Flt>(src: &mut Src, obs: &mut Obs, two_d: bool) -> Result<(), Fail> {
    obs.class(if two_d { "dim:2" } else { "dim:1" });
    obs.class(format!("T:{}", T::NAME));
    let extrap = src.chance(1, 3);
    // the configuration, and a way to build it again and again
    let c1 = if two_d {
        None
    } else {
        let o = Opts1 { max_lanes: 4, max_n_linear: 10, spline: crate::splinegen::SplineOpts { max_n: 10, ..Default::default() }, ..Opts1::default() };
        let mut c = Case1::gen::<T>(src, &o);
        // long axes (state such as a cached search position may only matter beyond some length)
        if matches!(c.strat, StratSel::Linear) && src.chance(1, 6) {
            let n = src.usize_in(65, 400);
            let cls = axis_class(src);
            c.x = axis::<T>(src, n, cls, None);
            c.axis_class = cls;
            c.n = n;
            c.data = values::<T>(src, n * c.lanes, ValClass::Dyadic, 0);
            obs.class("axis:long(65..400)");
        }
        Some(c)
    };
    let g2 = if two_d { Some(Grid::gen::<T>(src, 1)) } else { None };
    let (trailing, scalar_ok, xs, ys): (Vec<usize>, bool, Vec<f64>, Vec<f64>) = match (&c1, &g2) {
        (Some(c), _) => {
            c.classes(obs);
            (c.trailing.clone(), c.dd == DDim::S1, c.x.clone(), vec![0.0, 1.0])
        }
        (_, Some(g)) => {
            g.classes(obs);
            obs.class("strat:Bilinear");
            (g.trailing.clone(), g.dd == DDim::S2, g.x.clone(), g.y.clone())
        }
        _ => unreachable!(),
    };
    let build1 = |c: &Case1| -> Result<Box<dyn I1<T> + Send + Sync>, Fail> {
        let xo = if c.axis_class == AxisClass::Index { None } else { Some(arr_1::<T>(&c.x)) };
        match build1_sync::<T>(xo, arr_d::<T>(&c.shape(), &c.data), c.dd, &c.strat1::<T>(extrap)) {
            Some(Ok(i)) => Ok(i),
            Some(Err(e)) => Err(Fail::new("build-failed", format!("{e}"))),
            None => Err(Fail::new("oracle-bug", "not expressible")),
        }
    };
    let build2 = |g: &Grid| -> Result<Box<dyn I2<T> + Send + Sync>, Fail> {
        let xo = if g.cx == AxisClass::Index { None } else { Some(arr_1::<T>(&g.x)) };
        let yo = if g.cy == AxisClass::Index { None } else { Some(arr_1::<T>(&g.y)) };
        match build2_sync::<T>(xo, yo, arr_d::<T>(&g.shape(), &g.data), g.dd, extrap) {
            Some(Ok(i)) => Ok(i),
            Some(Err(e)) => Err(Fail::new("build-failed", format!("{e}"))),
            None => Err(Fail::new("oracle-bug", "not expressible")),
        }
    };
    // history
    let nops = src.usize_in(1, 60);
    let mut ops: Vec<Op<T>> = Vec::with_capacity(nops);
    let mut repeated = false;
    let mut kinds = std::collections::BTreeSet::new();
    let finite_bad = [RQ::BelowUlp, RQ::AboveUlp, RQ::FarBelow, RQ::FarAbove, RQ::PMax, RQ::NMax];
    for _ in 0..nops {
        // 1 of 6 operations repeats its predecessor (the same call twice in a row - also a failing one), or asks for the
        // predecessor's point through the other single-point entry
        if !ops.is_empty() && src.chance(1, 6) {
            let prev = ops.last().unwrap().clone();
            let op = match (&prev, src.bool()) {
                (Op::Scalar(x, y), true) => Op::Interp(*x, *y),
                (Op::Interp(x, y), true) if scalar_ok => Op::Scalar(*x, *y),
                _ => prev,
            };
            repeated = true;
            ops.push(op);
            continue;
        }
        let mut point = |src: &mut Src| -> (T, T) {
            // mostly in range; sometimes out of range (finite, so that extrapolating interpolators never panic)
            let bad = src.chance(1, 5);
            let cls = if bad { src.pick(&finite_bad) } else { src.pick(&RQ::GOOD) };
            let x = make_q::<T>(src, &xs, cls);
            let y = if two_d {
                let c2 = if bad && src.bool() { src.pick(&finite_bad) } else { src.pick(&RQ::GOOD) };
                make_q::<T>(src, &ys, c2)
            } else {
                T::zero()
            };
            (x, y)
        };
        let kind = src.below(5);
        let kind = if kind == 0 && !scalar_ok { 1 } else { kind };
        kinds.insert(kind);
        let op = match kind {
            0 => {
                let (x, y) = point(src);
                Op::Scalar(x, y)
            }
            1 => {
                let (x, y) = point(src);
                Op::Interp(x, y)
            }
            2 => {
                let (x, y) = point(src);
                let mut bs = trailing.clone();
                if src.chance(1, 4) && !bs.is_empty() {
                    let k = src.below(bs.len() as u64) as usize;
                    bs[k] += 1;
                }
                Op::InterpInto(x, y, bs)
            }
            _ => {
                let qd = src.pick(&[QDim::S1, QDim::S1, QDim::S2, QDim::Dyn]);
                let rank = qd.static_rank().unwrap_or_else(|| src.usize_in(0, 2));
                let sh: Vec<usize> = crate::gen1d::qshape(src, rank);
                let len = product(&sh);
                let pts: Vec<(T, T)> = (0..len).map(|_| point(src)).collect();
                let (qx, qy): (Vec<T>, Vec<T>) = pts.into_iter().unzip();
                if kind == 3 {
                    Op::Array(sh, qx, qy, qd)
                } else {
                    let mut bs = sh.clone();
                    bs.extend_from_slice(&trailing);
                    if src.chance(1, 4) && !bs.is_empty() {
                        let k = src.below(bs.len() as u64) as usize;
                        if src.bool() || bs[k] == 0 { bs[k] += 1 } else { bs[k] -= 1 }
                    }
                    Op::ArrayInto(sh, qx, qy, qd, bs)
                }
            }
        };
        ops.push(op);
    }
    if repeated {
        obs.class("history:repeated-call");
    }
    // reference: every op alone on a fresh interpolator
    let mut expected: Vec<Outcome> = Vec::with_capacity(nops);
    for op in &ops {
        let o = match (&c1, &g2) {
            (Some(c), _) => {
                let i = build1(c)?;
                exec(&Subject::One(i.as_ref()), op)
            }
            (_, Some(g)) => {
                let i = build2(g)?;
                exec(&Subject::Two(i.as_ref()), op)
            }
            _ => unreachable!(),
        };
        obs.class(match o {
            Outcome::Ok(..) => "op:ok",
            Outcome::Err => "op:err",
            Outcome::Panic => "op:panic",
        });
        expected.push(o);
    }
    // shared interpolator
    let s1 = match &c1 {
        Some(c) => Some(build1(c)?),
        None => None,
    };
    let s2 = match &g2 {
        Some(g) => Some(build2(g)?),
        None => None,
    };
    let subject = match (&s1, &s2) {
        (Some(i), _) => Subject::One(i.as_ref()),
        (_, Some(i)) => Subject::Two(i.as_ref()),
        _ => unreachable!(),
    };
    let strat = c1.as_ref().map(|c| c.strat.name()).unwrap_or("Bilinear".into());
    let report = |phase: &str, k: usize, got: &Outcome, order: &[usize]| -> Fail {
        let short = |o: &Outcome| match o {
            Outcome::Ok(s, v) => format!("Ok(shape {s:?}, first bits {:x?})", &v[..v.len().min(3)]),
            o => format!("{o:?}"),
        };
        Fail::new(
            format!("history-dependence/{phase}"),
            format!("T={} {strat}: operation #{k} {:?} gives {} on a fresh interpolator but {} when executed {phase} (history of {} ops, execution order {:?})", T::NAME, brief(&ops[k]), short(&expected[k]), short(got), ops.len(), &order[..order.len().min(20)]),
        )
    };
    // (a) in order
    let order: Vec<usize> = (0..nops).collect();
    for &k in &order {
        let got = exec(&subject, &ops[k]);
        obs.asserts += 1;
        if got != expected[k] {
            return Err(report("in-order", k, &got, &order));
        }
    }
    // (b) permutation
    let mut perm: Vec<usize> = (0..nops).collect();
    for i in (1..nops).rev() {
        let j = src.below(i as u64 + 1) as usize;
        perm.swap(i, j);
    }
    for &k in &perm {
        let got = exec(&subject, &ops[k]);
        obs.asserts += 1;
        if got != expected[k] {
            return Err(report("permuted", k, &got, &perm));
        }
    }
    // (c) threads
    let nthreads = src.usize_in(2, 16).min(nops.max(2));
    obs.class(if nthreads <= 4 { "threads:2-4" } else { "threads:5-16" });
    let mut buckets: Vec<Vec<usize>> = vec![Vec::new(); nthreads];
    for k in 0..nops {
        // each op runs in one or two threads
        let t = src.below(nthreads as u64) as usize;
        buckets[t].push(k);
        if src.chance(1, 3) {
            buckets[(t + 1) % nthreads].push(k);
        }
    }
    for b in buckets.iter_mut() {
        if src.bool() {
            b.reverse();
        }
    }
    let subj = &subject;
    let opsr = &ops;
    let results: Vec<Vec<(usize, Outcome)>> = std::thread::scope(|sc| {
        let hs: Vec<_> = buckets.iter().map(|b| sc.spawn(move || b.iter().map(|&k| (k, exec(subj, &opsr[k]))).collect::<Vec<_>>())).collect();
        hs.into_iter().map(|h| h.join().expect("worker thread died")).collect()
    });
    for (t, r) in results.iter().enumerate() {
        for (k, got) in r {
            obs.asserts += 1;
            if got != &expected[*k] {
                return Err(report(&format!("on-thread-{t}-of-{nthreads}"), *k, got, &buckets[t]));
            }
        }
    }
    // (d) contention: in 1 of 8 histories every thread runs the *whole* history several times, each
    // in its own rotation, so that the same interpolator is hit by many overlapping lookups
    if src.chance(1, 8) {
        obs.class("threads:hammer");
        let rounds = 6usize;
        let bad: Vec<Option<(usize, Outcome)>> = std::thread::scope(|sc| {
            let hs: Vec<_> = (0..nthreads)
                .map(|t| {
                    let expected = &expected;
                    sc.spawn(move || {
                        for r in 0..rounds {
                            for j in 0..opsr.len() {
                                let k = (j * (2 * t + 1) + r * 7 + t) % opsr.len();
                                let got = exec(subj, &opsr[k]);
                                if got != expected[k] {
                                    return Some((k, got));
                                }
                            }
                        }
                        None
                    })
                })
                .collect();
            hs.into_iter().map(|h| h.join().expect("worker thread died")).collect()
        });
        obs.asserts += (rounds * nops * nthreads) as u64;
        for (t, b) in bad.into_iter().enumerate() {
            if let Some((k, got)) = b {
                return Err(report(&format!("under-contention-thread-{t}-of-{nthreads}"), k, &got, &[]));
            }
        }
    }
    let fail_then_ok = expected.windows(2).any(|w| !matches!(w[0], Outcome::Ok(..)) && matches!(w[1], Outcome::Ok(..)));
    if fail_then_ok {
        obs.class("history:fail-then-ok");
    }
    obs.nontrivial = fail_then_ok && kinds.len() >= 2;
    if obs.nontrivial {
        match (&c1, &g2) {
            (Some(c), _) => c.key(obs),
            (_, Some(g)) => g.key(obs),
            _ => {}
        }
        obs.key(&format!("{:?}", ops.iter().map(brief).collect::<Vec<_>>()));
    }
    obs.describe(|| json!({"T": T::NAME, "strategy": strat, "extrapolate": extrap, "history": ops.iter().take(8).map(brief).collect::<Vec<_>>(), "history_len": nops, "threads": nthreads,
        "expected": expected.iter().take(8).map(|o| match o { Outcome::Ok(..) => "ok", Outcome::Err => "err", Outcome::Panic => "panic" }).collect::<Vec<_>>() }));
    let _ = query2::<T>;
    Ok(())
}

fn brief<T: Flt>(op: &Op<T>) -> String {
    match op {
        Op::Scalar(x, _) => format!("scalar({:e})", x.f()),
        Op::Interp(x, _) => format!("interp({:e})", x.f()),
        Op::InterpInto(x, _, bs) => format!("interp_into({:e}, buf{bs:?})", x.f()),
        Op::Array(sh, _, _, qd) => format!("interp_array({}{sh:?})", qd.name()),
        Op::ArrayInto(sh, _, _, qd, bs) => format!("interp_array_into({}{sh:?}, buf{bs:?})", qd.name()),
    }
}
