//! C20 - Linear and Bilinear results depend only on the bracketing data points.

use super::c04::{query2, Grid};
use super::c06::outside;
use super::*;
use crate::adapt::*;
use crate::common::*;
use crate::fail;
use crate::gen::*;
use crate::gen1d::*;

pub struct C20;

impl Check for C20 {
    fn id(&self) -> &'static str {
        "C20"
    }
    fn entropy_len(&self) -> usize {
        700
    }
    fn cases(&self, tier: Tier) -> u64 {
        tier.pick(400_000, 10_000_000)
    }
    fn run_case(&self, src: &mut Src, obs: &mut Obs) -> Result<(), Fail> {
        let two_d = src.chance(1, 3);
        match (two_d, src.chance(1, 5)) {
            (false, false) => run1::<f64>(src, obs),
            (false, true) => run1::<f32>(src, obs),
            (true, false) => run2::<f64>(src, obs),
            (true, true) => run2::<f32>(src, obs),
        }
    }
    fn rule(&self) -> String {
        "Linear data sets (n 2..24, all axis classes, 0..3 trailing axes) and Bilinear grids (2..12 x 2..12), with and without extrapolation; per \
         query (in range: knots, +-ulp, interior; extrapolated: just outside and far) a twin is built from the same inputs in which every data row \
         (2-D: every row and column) that does not bracket the query is replaced by NaN, +-inf or other values and / or every non-bracketing \
         axis value is moved by less than half the gap to its neighbours (including the first / last knot when they are not part of the bracket, \
         which changes the lookup's initial guess). Oracle: the result for that query is bit-identical in every lane. Non-trivial: n >= 4 and a \
         non-finite poison or a moved knot."
            .into()
    }
    fn assumptions(&self) -> Vec<String> {
        vec!["bitwise comparison between two interpolators of the same concrete type".into()]
    }
    fn required_classes(&self, _t: Tier) -> Vec<&'static str> {
        vec!["dim:1", "dim:2", "poison:nan", "poison:inf", "poison:random", "knots-moved", "query:extrapolated", "query:in-range", "moved:first-or-last"]
    }
}

fn poison_val<T: Flt>(src: &mut Src, obs: &mut Obs, old: f64) -> f64 {
    match src.below(4) {
        0 => {
            obs.class("poison:nan");
            f64::NAN
        }
        1 => {
            obs.class("poison:inf");
            if src.bool() { f64::INFINITY } else { f64::NEG_INFINITY }
        }
        2 => {
            obs.class("poison:random");
            T::of(old * -3.0 + 17.0).f()
        }
        _ => {
            obs.class("poison:random");
            T::of(value::<T>(src, ValClass::Full, 3)).f()
        }
    }
}

/// move every knot not in `keep` by less than half of the smaller neighbouring gap
fn move_knots<T: Flt>(src: &mut Src, x: &[f64], keep: &[usize]) -> (Vec<f64>, bool, bool) {
    let n = x.len();
    let mut out = x.to_vec();
    let mut moved = false;
    let mut ends = false;
    for j in 0..n {
        if keep.contains(&j) {
            continue;
        }
        let gl = if j > 0 { x[j] - x[j - 1] } else { f64::INFINITY };
        let gr = if j + 1 < n { x[j + 1] - x[j] } else { f64::INFINITY };
        let g = gl.min(gr);
        let g = if g.is_finite() { g } else { 1.0 };
        let d = (src.unit() - 0.5) * 0.9 * g;
        let cand = T::of(x[j] + d).f();
        let ok_l = j == 0 || cand > x[j - 1] + gl * 0.5 || (cand > x[j - 1] && j >= 1 && keep.contains(&(j - 1)));
        let ok_r = j + 1 == n || cand < x[j + 1] - gr * 0.5 || (cand < x[j + 1] && keep.contains(&(j + 1)));
        if cand != x[j] && cand.is_finite() && ok_l && ok_r {
            out[j] = cand;
            moved = true;
            if j == 0 || j == n - 1 {
                ends = true;
            }
        }
    }
    // safety: must stay strictly increasing
    if !out.windows(2).all(|w| w[0] < w[1]) {
        return (x.to_vec(), false, false);
    }
    (out, moved, ends)
}

fn run1<T: Flt>(src: &mut Src, obs: &mut Obs) -> Result<(), Fail> {
    obs.class("dim:1");
    obs.class(format!("T:{}", T::NAME));
    let o = Opts1 { linear_weight: 1, spline_weight: 0, ..Opts1::default() };
    let mut c = Case1::gen::<T>(src, &o);
    if c.axis_class == AxisClass::Index {
        // knots cannot be moved on the default axis; make it explicit (same values)
        c.axis_class = AxisClass::Unit;
    }
    c.classes(obs);
    let extrap = src.bool();
    let a = c.build::<T>(extrap)?;
    let nq = src.usize_in(2, 6);
    let mut nontrivial = false;
    for _ in 0..nq {
        let (q, is_out) = if extrap && src.chance(1, 3) { (outside::<T>(src, &c.x).0, true) } else { (query_in_range::<T>(src, &c.x).0, false) };
        obs.class(if is_out { "query:extrapolated" } else { "query:in-range" });
        let i = bracket(&c.x, q);
        let mut t = c.clone();
        let mut strong = false;
        let mode = src.below(3); // 0 poison data, 1 move knots, 2 both
        if mode != 1 {
            for r in 0..c.n {
                if r != i && r != i + 1 {
                    for l in 0..c.lanes {
                        let before = obs.classes.len();
                        t.data[r * c.lanes + l] = poison_val::<T>(src, obs, c.data[r * c.lanes + l]);
                        if !t.data[r * c.lanes + l].is_finite() {
                            strong = true;
                        }
                        // keep the class list short
                        if obs.classes.len() > 60 {
                            obs.classes.truncate(before);
                        }
                    }
                }
            }
        }
        if mode != 0 {
            let (nx, moved, ends) = move_knots::<T>(src, &c.x, &[i, i + 1]);
            t.x = nx;
            if moved {
                obs.class("knots-moved");
                strong = true;
            }
            if ends {
                obs.class("moved:first-or-last");
            }
        }
        let b = t.build::<T>(extrap)?;
        let ra = a.t_interp(T::of(q)).map_err(|e| Fail::new("query-rejected", e))?;
        let rb = match b.t_interp(T::of(q)) {
            Ok(r) => r,
            Err(e) => fail!("twin-rejected", "twin rejected q={q:e}: {e}; x={:?} -> {:?}", c.x, t.x),
        };
        for l in 0..c.lanes {
            obs.asserts += 1;
            if ra.v[l].key() != rb.v[l].key() {
                fail!(format!("non-bracket-dependence/{}", ["data", "knots", "both"][mode as usize]), "T={} lane {l}: q={q:e} (bracket {i}): {:e} becomes {:e} when only non-bracketing rows / knots change; x={:?} -> {:?}; data {:?} -> {:?}",
                    T::NAME, ra.v[l].f(), rb.v[l].f(), c.x, t.x, c.lane_data(l), t.lane_data(l));
            }
        }
        if c.n >= 4 && strong {
            nontrivial = true;
        }
    }
    // the same through the batch entry points: element k of a batch depends only on the bracket of q[k] - in particular for
    // a batch that looks like the axis (n points, most of them the knots)
    if c.n >= 3 && src.chance(1, 3) {
        let batch: Vec<f64> = if src.bool() { axis_like_batch::<T>(src, &c.x).into_iter().map(|p| p.0).collect() } else { (0..src.usize_in(2, 6)).map(|_| query_in_range::<T>(src, &c.x).0).collect() };
        obs.class(if batch.len() == c.n { "batch:axis-like" } else { "batch:random" });
        let k = src.below(batch.len() as u64) as usize;
        let i = bracket(&c.x, batch[k]);
        let mut t = c.clone();
        for r in 0..c.n {
            if r != i && r != i + 1 {
                for l in 0..c.lanes {
                    t.data[r * c.lanes + l] = if src.bool() { f64::NAN } else { T::of(c.data[r * c.lanes + l] + 1.0 + c.data[r * c.lanes + l].abs()).f() };
                }
            }
        }
        let b = t.build::<T>(extrap)?;
        let ep = if src.bool() { 2 } else { 4 };
        let ra = eval1::<T>(a.as_ref(), &batch, ep, c.lanes, &c.trailing)?;
        let rb = eval1::<T>(b.as_ref(), &batch, ep, c.lanes, &c.trailing)?;
        for l in 0..c.lanes {
            obs.asserts += 1;
            if ra[k][l].key() != rb[k][l].key() {
                fail!("non-bracket-dependence/batch", "T={} lane {l}: element {k} of a batch of {} queries (q = {:e}, bracket {i}, entry {}): {:e} becomes {:e} when only rows that do not bracket it change; x={:?} batch={:?}",
                    T::NAME, batch.len(), batch[k], EP_NAMES[ep], ra[k][l].f(), rb[k][l].f(), c.x, batch);
            }
        }
    }
    obs.nontrivial = nontrivial;
    if nontrivial {
        c.key(obs);
    }
    obs.describe(|| c.describe::<T>());
    Ok(())
}

fn run2<T: Flt>(src: &mut Src, obs: &mut Obs) -> Result<(), Fail> {
    obs.class("dim:2");
    obs.class(format!("T:{}", T::NAME));
    let mut g = Grid::gen::<T>(src, 2);
    if g.cx == AxisClass::Index {
        g.cx = AxisClass::Unit;
    }
    if g.cy == AxisClass::Index {
        g.cy = AxisClass::Unit;
    }
    g.classes(obs);
    let extrap = src.bool();
    let a = g.build::<T>(extrap)?;
    let nq = src.usize_in(2, 5);
    let mut nontrivial = false;
    for _ in 0..nq {
        let ((ix, iy), _) = query2::<T>(src, &g.x, &g.y);
        let (qx, qy, is_out) = if extrap && src.chance(1, 3) {
            match src.below(3) {
                0 => (outside::<T>(src, &g.x).0, iy, true),
                1 => (ix, outside::<T>(src, &g.y).0, true),
                _ => (outside::<T>(src, &g.x).0, outside::<T>(src, &g.y).0, true),
            }
        } else {
            (ix, iy, false)
        };
        obs.class(if is_out { "query:extrapolated" } else { "query:in-range" });
        let (i, j) = (bracket(&g.x, qx), bracket(&g.y, qy));
        let mut d = g.data.clone();
        let mut strong = false;
        let mode = src.below(3);
        if mode != 1 {
            for r in 0..g.nx {
                for cc in 0..g.ny {
                    if (r == i || r == i + 1) && (cc == j || cc == j + 1) {
                        continue;
                    }
                    for l in 0..g.lanes {
                        let before = obs.classes.len();
                        let idx = (r * g.ny + cc) * g.lanes + l;
                        d[idx] = poison_val::<T>(src, obs, g.data[idx]);
                        if !d[idx].is_finite() {
                            strong = true;
                        }
                        if obs.classes.len() > 60 {
                            obs.classes.truncate(before);
                        }
                    }
                }
            }
        }
        let (mut nx, mut ny) = (g.x.clone(), g.y.clone());
        if mode != 0 {
            let (a1, m1, e1) = move_knots::<T>(src, &g.x, &[i, i + 1]);
            let (a2, m2, e2) = move_knots::<T>(src, &g.y, &[j, j + 1]);
            nx = a1;
            ny = a2;
            if m1 || m2 {
                obs.class("knots-moved");
                strong = true;
            }
            if e1 || e2 {
                obs.class("moved:first-or-last");
            }
        }
        let t = Grid { x: nx, y: ny, data: d, trailing: g.trailing.clone(), ..g };
        let b = t.build::<T>(extrap)?;
        let ra = a.t_interp(T::of(qx), T::of(qy)).map_err(|e| Fail::new("query-rejected", e))?;
        let rb = match b.t_interp(T::of(qx), T::of(qy)) {
            Ok(r) => r,
            Err(e) => fail!("twin-rejected", "twin rejected ({qx:e},{qy:e}): {e}"),
        };
        for l in 0..g.lanes {
            obs.asserts += 1;
            if ra.v[l].key() != rb.v[l].key() {
                fail!(format!("non-cell-dependence/{}", ["data", "knots", "both"][mode as usize]), "T={} lane {l}: q=({qx:e},{qy:e}) (cell {i},{j}): {:e} becomes {:e} when only grid values / knots outside the cell change; x={:?} -> {:?}, y={:?} -> {:?}",
                    T::NAME, ra.v[l].f(), rb.v[l].f(), g.x, t.x, g.y, t.y);
            }
        }
        if (g.nx >= 4 || g.ny >= 4) && strong {
            nontrivial = true;
        }
        // hand the moved fields back (Grid is not Clone: rebuild g from t's owned parts)
        g = Grid { x: g.x.clone(), y: g.y.clone(), data: g.data.clone(), trailing: t.trailing, ..t };
    }
    obs.nontrivial = nontrivial;
    if nontrivial {
        g.key(obs);
    }
    obs.describe(|| g.describe::<T>());
    Ok(())
}
