//! C01 - Linear 1-D interpolation returns the exact piecewise-linear interpolant.

use super::*;
use crate::adapt::*;
use crate::common::*;
use crate::fail;
use crate::gen::*;
use ndarray::IxDyn;

pub struct C01;

/// allowance: 8 ulp(M) = 16 u M, M = larger bracketing magnitude (DESIGN 3.4)
pub const ULPS: f64 = 8.0;

impl Check for C01 {
    fn id(&self) -> &'static str {
        "C01"
    }
    fn entropy_len(&self) -> usize {
        900
    }
    fn cases(&self, tier: Tier) -> u64 {
        tier.pick(60_000, 3_000_000)
    }
    fn run_case(&self, src: &mut Src, obs: &mut Obs) -> Result<(), Fail> {
        if src.chance(1, 5) {
            run::<f32>(src, obs)
        } else {
            run::<f64>(src, obs)
        }
    }
    fn rule(&self) -> String {
        "random data sets: axis class (index/unit/uniform/geometric/clustered-to-ulps/random/dyadic), n in 2..64 \
         (1% up to 10^4), 0..3 trailing axes, value classes small-int/dyadic/full-mantissa, f64 (80%) / f32; \
         16..48 in-range queries each (knots, knot+-1ulp, ends, mid, quarter, random) through interp_scalar/interp/\
         interp_array(rank 1, rank 2, dynamic); every lane compared with the exact rational line through the true \
         bracket (linear scan). Non-trivial: explicit non-unit axis AND some lane with y1 != y2 at a query strictly \
         inside an interval or one ulp from a knot. Distinct: hash of axis, data and queries."
            .into()
    }
    fn assumptions(&self) -> Vec<String> {
        vec![
            format!("allowance {} ulp of the larger bracketing magnitude (16 u M); errors below it are invisible", ULPS),
            "magnitudes restricted to the exponent window (f64 2^+-60.., f32 2^+-12) so no intermediate overflows or is subnormal".into(),
            "exact reference: hand-written rational arithmetic, self-tested at start of every run".into(),
        ]
    }
    fn required_classes(&self, _t: Tier) -> Vec<&'static str> {
        vec!["T:f64", "T:f32", "axis:index", "axis:clustered", "axis:geometric", "q:knot", "q:knot+ulp", "q:knot-ulp", "q:first", "q:last", "ep:scalar", "ep:array2"]
    }
    fn extra_coverage(&self) -> serde_json::Value {
        json!({"allowance_ulps_of_max_bracket": ULPS})
    }
}

fn run<T: Flt>(src: &mut Src, obs: &mut Obs) -> Result<(), Fail> {
    obs.class(format!("T:{}", T::NAME));
    let n = if src.chance(1, 100) { src.usize_in(65, 10_000) } else { src.usize_in(2, 64) };
    let class = axis_class(src);
    let x = if n > 64 {
        let ent = expand(src, 4 * n + 16);
        axis::<T>(&mut Src::new(&ent), n, class, None)
    } else {
        axis::<T>(src, n, class, None)
    };
    let trailing = if n > 64 {
        trailing_shape(src, 1, &[1, 2])
    } else if src.chance(1, 40) {
        // many lanes (size thresholds in per-lane loops)
        src.pick(&[vec![40usize], vec![5, 8], vec![17], vec![3, 3, 7], vec![64], vec![96], vec![33, 1], vec![4, 4, 4]])
    } else {
        trailing_shape(src, 3, &[1, 2, 3, 4])
    };
    let lanes = product(&trailing);
    let vclass = val_class(src);
    let sc = scale_exp::<T>(src);
    let data = if n * lanes > 100 {
        let ent = expand(src, 3 * n * lanes + 8);
        values::<T>(&mut Src::new(&ent), n * lanes, vclass, sc)
    } else {
        values::<T>(src, n * lanes, vclass, sc)
    };
    // axis and data scaled TOGETHER by a large power of two (exact): every knot, step, value and result stays a normal
    // number, but a formula that forms value x step (or value / step^2) leaves the float range
    let (mut x, mut data) = (x, data);
    if class != AxisClass::Index && src.chance(1, 10) {
        let (kmin, kmax, top, low_x, low_y) = if T::MANT == 53 { (300, 900, 1000, -1000, -900) } else { (30, 100, 120, -120, -100) };
        let k = src.int_in(kmin, kmax) as i32 * if src.bool() { 1 } else { -1 };
        let f = 2f64.powi(k / 2) * 2f64.powi(k - k / 2);
        let sx: Vec<f64> = x.iter().map(|v| v * 2f64.powi(k / 2) * 2f64.powi(k - k / 2)).collect();
        let sd: Vec<f64> = data.iter().map(|v| v * 2f64.powi(k / 2) * 2f64.powi(k - k / 2)).collect();
        let in_win = |v: f64, lo: i32| v == 0.0 || (v.is_finite() && v.abs() < 2f64.powi(top) && v.abs() >= 2f64.powi(lo) && T::of(v).f() == v);
        let ok = f.is_finite()
            && f > 0.0
            && sx.iter().all(|&v| in_win(v, low_x))
            && sd.iter().all(|&v| in_win(v, low_y))
            && sx.windows(2).all(|w| w[1] - w[0] >= 2f64.powi(low_x))
            && sx.iter().zip(x.iter()).all(|(s, o)| (*o == 0.0) == (*s == 0.0))
            && sd.iter().zip(data.iter()).all(|(s, o)| (*o == 0.0) == (*s == 0.0));
        if ok {
            obs.class(if k > 0 { "scale:co-scaled-huge" } else { "scale:co-scaled-tiny" });
            x = sx;
            data = sd;
        }
    }
    let mut shape = vec![n];
    shape.extend_from_slice(&trailing);
    let dd = if src.chance(1, 4) { DDim::Dyn } else { DDim::of_rank(shape.len()) };
    let extrapolate = src.chance(1, 4);
    // memory layouts of the axis and of the data are varied too (standard in 3 of 4 cases each)
    let (xlay, dlay) = (crate::layout::pick_lay(src), crate::layout::pick_lay(src));
    obs.class(format!("xlayout:{}", xlay.0.name()));
    obs.class(format!("datalayout:{}", dlay.0.name()));
    let xo = if class == AxisClass::Index { None } else { Some(crate::layout::realise1(arr_1::<T>(&x), xlay, T::of(-9.0e9))) };
    let unchecked = xo.is_some() && src.chance(1, 10);
    if unchecked {
        obs.class("constructor:new_unchecked");
    }
    let interp = match if unchecked {
        build1_unchecked::<T>(xo.unwrap(), crate::layout::realise(arr_d::<T>(&shape, &data), dlay, T::of(-3.5e5)), dd, extrapolate).map(Ok)
    } else {
        build1::<T>(xo, crate::layout::realise(arr_d::<T>(&shape, &data), dlay, T::of(-3.5e5)), dd, &Strat1::Linear { extrapolate })
    } {
        Some(Ok(i)) => i,
        Some(Err(e)) => fail!("build-failed", "valid input rejected: {e}"),
        None => unreachable!(),
    };
    obs.class(format!("axis:{}", class.name()));
    obs.class(format!("lanes:{}", if lanes == 1 { "1" } else if lanes > 16 { ">16" } else { ">1" }));
    obs.class(format!("ddim:{}", dd.name()));
    obs.class(if n > 64 { "n:>64" } else if n <= 3 { "n:2-3" } else { "n:4-64" });

    // 1 of 8 batches looks like the axis: n points, most of them the knots themselves
    let axis_like = n >= 3 && n <= 64 && src.chance(1, 8);
    let nq = if axis_like { n } else { src.usize_in(16, 48) };
    let mut qs = Vec::with_capacity(nq);
    let mut qc = Vec::with_capacity(nq);
    if axis_like {
        obs.class("queries:axis-like-batch");
        for (q, c) in axis_like_batch::<T>(src, &x) {
            qs.push(q);
            qc.push(c);
        }
    } else {
        for _ in 0..nq {
            let (q, c) = query_in_range::<T>(src, &x);
            qs.push(q);
            qc.push(c);
        }
    }
    // entry point
    let scalar_ok = dd == DDim::S1;
    let ep = src.weighted(&[2, 2, 3, 2, 1]);
    let ep = if ep == 0 && !scalar_ok { 1 } else { ep };
    let epn = ["scalar", "interp", "array1", "array2", "arraydyn"][ep];
    obs.class(format!("ep:{epn}"));
    // evaluation through the chosen entry point (batches: query layout and order varied as a function of the content)
    let res: Vec<Vec<T>> = match catch(|| eval1::<T>(interp.as_ref(), &qs, ep, lanes, &trailing)) {
        Ok(Ok(r)) => r,
        Ok(Err(f)) if f.sig == "query-rejected" => fail!("in-range-rejected", "{}", f.msg),
        Ok(Err(f)) => return Err(f),
        Err(p) => fail!("panic", "T={} ep={epn} axis={} n={n}: query panicked: {p}", T::NAME, class.name()),
    };
    // oracle
    let mut nontrivial_q = false;
    for (k, &q) in qs.iter().enumerate() {
        let i = bracket(&x, q);
        let (x1, x2) = (x[i], x[i + 1]);
        if res[k].len() != lanes {
            fail!("result-shape", "query {k}: {} lanes returned, expected {lanes}", res[k].len());
        }
        if k < 6 {
            obs.class(qc[k].name());
        }
        for l in 0..lanes {
            let y1 = data[i * lanes + l];
            let y2 = data[(i + 1) * lanes + l];
            // at an interior knot both adjacent intervals bracket the query: either may be used
            let mut m = y1.abs().max(y2.abs());
            if q == x1 && i > 0 {
                m = m.max(data[(i - 1) * lanes + l].abs());
            }
            if q == x2 && i + 2 < n {
                m = m.max(data[(i + 2) * lanes + l].abs());
            }
            let tol = ULPS * 2.0 * T::U * m;
            let want = exact_line(x1, y1, x2, y2, q);
            let got = res[k][l].f();
            let (ok, ne) = within(got, &want, tol + T::TINY);
            obs.asserts += 1;
            obs.err(ne);
            if !ok {
                fail!(
                    format!("line/{}", if q == x1 || q == x2 { "at-knot" } else { "inside" }),
                    "T={} ep={epn} axis={} n={n} lane {l}: q={:e} in [{:e},{:e}] y=({:e},{:e}) got {:e}, exact line {:e}, |diff|/allowance={:.3e}",
                    T::NAME, class.name(), q, x1, x2, y1, y2, got, want.to_f64(), ne
                );
            }
            if y1 != y2 && (q != x1 && q != x2 || matches!(qc[k], QClass::KnotUp | QClass::KnotDown)) {
                nontrivial_q = true;
            }
        }
    }
    obs.nontrivial = nontrivial_q && !matches!(class, AxisClass::Index | AxisClass::Unit);
    if obs.nontrivial {
        obs.key_f64s(&x);
        obs.key_f64s(&data);
        obs.key_f64s(&qs);
    }
    obs.describe(|| {
        json!({"T": T::NAME, "n": n, "axis_class": class.name(), "x": ffs::<T>(&x, 6), "trailing": trailing,
               "data": ffs::<T>(&data, 6), "data_dim": dd.name(), "entry": epn, "queries": ffs::<T>(&qs, 4),
               "extrapolate_flag": extrapolate})
    });
    Ok(())
}
