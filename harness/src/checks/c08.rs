//! C08 - every lane of n-dimensional data is interpolated independently.

use super::c03::k_const;
use super::c04::{eval2, query2, Grid, ULPS2};
use super::*;
use crate::adapt::*;
use crate::common::*;
use crate::fail;
use crate::gen::*;
use crate::gen1d::*;
use crate::oracle::*;
use crate::splinegen::*;

pub struct C08;

impl Check for C08 {
    fn id(&self) -> &'static str {
        "C08"
    }
    fn entropy_len(&self) -> usize {
        900
    }
    fn cases(&self, tier: Tier) -> u64 {
        tier.pick(150_000, 4_000_000)
    }
    fn run_case(&self, src: &mut Src, obs: &mut Obs) -> Result<(), Fail> {
        let two_d = src.chance(1, 3);
        match (two_d, src.chance(1, 5)) {
            (false, false) => run1::<f64>(src, obs),
            (false, true) => run1::<f32>(src, obs),
            (true, false) => run2::<f64>(src, obs),
            (true, true) => run2::<f32>(src, obs),
        }
    }
    fn rule(&self) -> String {
        "n-dimensional data sets (data dims Ix1..Ix6 and IxDyn, 0..5 trailing axes of lengths 0,1,2,3, non-square) for every strategy \
         (Linear, CubicSpline with whole-set / Periodic / per-lane Individual boundaries, Bilinear). (i) perturbation: a twin is built in \
         which every lane except j gets other values (random, huge, NaN, +-inf) and, for Individual boundaries, other boundary selections; \
         lane j must be bit-identical in all results. (ii) projection: an interpolator built from lane j alone (Ix1 resp. Ix2 data) must \
         agree with lane j up to rounding (2x the property's allowance; the bit-equal fraction is reported). Zero-length trailing axes: all \
         entry points must work and return correctly shaped empty results. Non-trivial: >= 2 lanes (with pairwise different data)."
            .into()
    }
    fn assumptions(&self) -> Vec<String> {
        vec![
            "perturbation oracle is bitwise between two interpolators of the same concrete type".into(),
            "projection oracle compares across types, hence 'up to rounding' as the property requires; allowance 2 x (C01 / C03 / C04 allowance)".into(),
        ]
    }
    fn required_classes(&self, _t: Tier) -> Vec<&'static str> {
        vec!["dim:1", "dim:2", "strat:Linear", "strat:Spline/Individual", "strat:Spline/Periodic", "perturb:nan", "perturb:huge", "perturb:bc", "lanes:0", "lanes:>=2", "ddim:Ix6", "ddim:IxDyn"]
    }
}

fn perturb_value<T: Flt>(src: &mut Src, obs: &mut Obs, old: f64, allow_nonfinite: bool) -> f64 {
    match src.below(if allow_nonfinite { 6 } else { 3 }) {
        0 => old + 1.0,
        1 => -old * 3.0 + 0.5,
        2 => {
            obs.class("perturb:huge");
            T::max_value().f() / 4.0
        }
        3 => {
            obs.class("perturb:nan");
            f64::NAN
        }
        4 => {
            obs.class("perturb:inf");
            f64::INFINITY
        }
        _ => {
            obs.class("perturb:-inf");
            f64::NEG_INFINITY
        }
    }
}

fn run1<T: Flt>(src: &mut Src, obs: &mut Obs) -> Result<(), Fail> {
    obs.class("dim:1");
    obs.class(format!("T:{}", T::NAME));
    let o = Opts1 {
        lens: &[0, 1, 2, 2, 3, 3],
        max_trailing_axes: 5,
        max_lanes: 12,
        spline: SplineOpts { lens: &[1, 1, 2, 2, 3], max_trailing_axes: 5, max_n: 16, ..SplineOpts::default() },
        ..Opts1::default()
    };
    let c = Case1::gen::<T>(src, &o);
    c.classes(obs);
    obs.class(match c.lanes {
        0 => "lanes:0",
        1 => "lanes:1",
        _ => "lanes:>=2",
    });
    let extrap = src.chance(1, 4);
    let a = c.build::<T>(extrap)?;
    let nq = src.usize_in(4, 12);
    let qs: Vec<f64> = (0..nq).map(|_| query_in_range::<T>(src, &c.x).0).collect();
    let ep = pick_ep(src, c.dd == DDim::S1);
    obs.class(format!("ep:{}", EP_NAMES[ep]));
    let ra = match catch(|| eval1::<T>(a.as_ref(), &qs, ep, c.lanes, &c.trailing)) {
        Ok(r) => r?,
        Err(p) => fail!("panic", "T={} {} trailing {:?}: query panicked: {p}", T::NAME, c.strat.name(), c.trailing),
    };
    if c.lanes == 0 {
        obs.asserts += 1;
        obs.nontrivial = false;
        obs.describe(|| c.describe::<T>());
        return Ok(());
    }
    let j = src.below(c.lanes as u64) as usize;
    // (i) perturbation twin
    if c.lanes >= 2 {
        let mut t = c.clone();
        let periodic = matches!(&c.strat, StratSel::Spline(b) if b.is_periodic());
        for i in 0..c.n {
            for l in 0..c.lanes {
                if l != j {
                    let end_row = i == 0 || i == c.n - 1;
                    let v = perturb_value::<T>(src, obs, c.data[i * c.lanes + l], !(periodic && end_row));
                    t.data[i * c.lanes + l] = T::of(v).f();
                }
            }
        }
        if periodic {
            for l in 0..c.lanes {
                t.data[(c.n - 1) * c.lanes + l] = t.data[l];
            }
        }
        if let StratSel::Spline(BcSel::Individual(v)) = &c.strat {
            let h = (c.x[c.n - 1] - c.x[0]) / (c.n - 1) as f64;
            let mut nv = v.clone();
            for (l, s) in nv.iter_mut().enumerate() {
                if l != j {
                    *s = lane_sel::<T>(src, 0, h);
                }
            }
            obs.class("perturb:bc");
            t.strat = StratSel::Spline(BcSel::Individual(nv));
        }
        let b = t.build::<T>(extrap)?;
        let rb = match catch(|| eval1::<T>(b.as_ref(), &qs, ep, c.lanes, &c.trailing)) {
            Ok(r) => r?,
            Err(p) => fail!("panic", "T={} {}: perturbed twin panicked: {p}", T::NAME, c.strat.name()),
        };
        for k in 0..nq {
            obs.asserts += 1;
            if ra[k][j].key() != rb[k][j].key() {
                fail!(format!("lane-leak/{}", c.strat.name()), "T={} {} trailing {:?}: lane {j} at q={:e} changed from {:e} to {:e} when only other lanes (values / boundary selections) were changed",
                    T::NAME, c.strat.name(), c.trailing, qs[k], ra[k][j].f(), rb[k][j].f());
            }
        }
    }
    // (ii) projection onto lane j
    let p = Case1 {
        trailing: vec![],
        lanes: 1,
        data: c.lane_data(j),
        dd: DDim::S1,
        strat: match &c.strat {
            StratSel::Linear => StratSel::Linear,
            StratSel::Spline(BcSel::Individual(v)) => StratSel::Spline(BcSel::Individual(vec![v[j].clone()])),
            StratSel::Spline(b) => StratSel::Spline(b.clone()),
        },
        ..c.clone()
    };
    let pi = p.build::<T>(extrap)?;
    let rp = eval1::<T>(pi.as_ref(), &qs, 1, 1, &[])?;
    let sp = match &c.strat {
        StratSel::Spline(bc) => Some(Spline::solve(&c.x, &c.lane_data(j), &bc.bounds(j)).map_err(|e| Fail::new("oracle-bug", e))?),
        _ => None,
    };
    for k in 0..nq {
        let i = bracket(&c.x, qs[k]);
        let tol = match &sp {
            None => 2.0 * super::c01::ULPS * 2.0 * T::U * c.data[i * c.lanes + j].abs().max(c.data[(i + 1) * c.lanes + j].abs()),
            Some(sp) => 2.0 * k_const::<T>() * T::U * sp.sigma(i) * 1.25,
        } + T::TINY;
        let (x1, x2) = (ra[k][j].f(), rp[k][0].f());
        obs.asserts += 1;
        obs.count(if ra[k][j].key() == rp[k][0].key() { "projection_bit_equal" } else { "projection_not_bit_equal" }, 1);
        if !((x1 - x2).abs() <= tol) {
            fail!(format!("projection/{}", c.strat.name()), "T={} {} trailing {:?}: lane {j} at q={:e} is {x1:e}, the interpolator built from that lane alone gives {x2:e} (allowance {tol:.3e})",
                T::NAME, c.strat.name(), c.trailing, qs[k]);
        }
    }
    obs.nontrivial = c.lanes >= 2;
    if obs.nontrivial {
        c.key(obs);
        obs.key_f64s(&qs);
        obs.key(&j);
    }
    obs.describe(|| {
        let mut d = c.describe::<T>();
        d["lane"] = json!(j);
        d["queries"] = ffs::<T>(&qs, 4);
        d
    });
    Ok(())
}

fn run2<T: Flt>(src: &mut Src, obs: &mut Obs) -> Result<(), Fail> {
    obs.class("dim:2");
    obs.class(format!("T:{}", T::NAME));
    obs.class("strat:Bilinear");
    let mut g = Grid::gen::<T>(src, 4);
    // allow a zero-length trailing axis sometimes
    if !g.trailing.is_empty() && src.chance(1, 8) {
        let k = src.below(g.trailing.len() as u64) as usize;
        g.trailing[k] = 0;
        g.lanes = 0;
        g.data.clear();
    }
    g.classes(obs);
    obs.class(match g.lanes {
        0 => "lanes:0",
        1 => "lanes:1",
        _ => "lanes:>=2",
    });
    let a = g.build::<T>(false)?;
    let nq = src.usize_in(4, 10);
    let qs: Vec<(f64, f64)> = (0..nq).map(|_| query2::<T>(src, &g.x, &g.y).0).collect();
    let ep = pick_ep(src, g.dd == DDim::S2);
    let ra = match catch(|| eval2::<T>(a.as_ref(), &qs, ep, g.lanes, &g.trailing)) {
        Ok(r) => r?,
        Err(p) => fail!("panic", "T={} Bilinear trailing {:?}: query panicked: {p}", T::NAME, g.trailing),
    };
    if g.lanes == 0 {
        obs.asserts += 1;
        return Ok(());
    }
    let j = src.below(g.lanes as u64) as usize;
    if g.lanes >= 2 {
        let mut d = g.data.clone();
        for (idx, v) in d.iter_mut().enumerate() {
            if idx % g.lanes != j {
                *v = T::of(perturb_value::<T>(src, obs, *v, true)).f();
            }
        }
        let t = Grid { data: d, x: g.x.clone(), y: g.y.clone(), trailing: g.trailing.clone(), ..g };
        let b = t.build::<T>(false)?;
        let rb = eval2::<T>(b.as_ref(), &qs, ep, g.lanes, &g.trailing)?;
        for k in 0..nq {
            obs.asserts += 1;
            if ra[k][j].key() != rb[k][j].key() {
                fail!("lane-leak/Bilinear", "T={} Bilinear trailing {:?}: lane {j} at ({:e},{:e}) changed from {:e} to {:e} when only other lanes were changed",
                    T::NAME, t.trailing, qs[k].0, qs[k].1, ra[k][j].f(), rb[k][j].f());
            }
        }
        // restore g for the projection below
        let g2 = Grid { data: g.data.clone(), ..t };
        return projection2::<T>(src, obs, g2, j, &qs, &ra);
    }
    projection2::<T>(src, obs, g, j, &qs, &ra)
}

fn projection2<T: Flt>(_src: &mut Src, obs: &mut Obs, g: Grid, j: usize, qs: &[(f64, f64)], ra: &[Vec<T>]) -> Result<(), Fail> {
    let d: Vec<f64> = (0..g.nx * g.ny).map(|c| g.data[c * g.lanes + j]).collect();
    let p = Grid { data: d, trailing: vec![], lanes: 1, dd: DDim::S2, x: g.x.clone(), y: g.y.clone(), ..g };
    let pi = p.build::<T>(false)?;
    let rp = eval2::<T>(pi.as_ref(), qs, 1, 1, &[])?;
    for (k, q) in qs.iter().enumerate() {
        let (i, jj) = (bracket(&g.x, q.0), bracket(&g.y, q.1));
        let m = [p.z(i, jj, 0), p.z(i, jj + 1, 0), p.z(i + 1, jj, 0), p.z(i + 1, jj + 1, 0)].iter().fold(0f64, |a, v| a.max(v.abs()));
        let tol = 2.0 * ULPS2 * 2.0 * T::U * m + T::TINY;
        obs.asserts += 1;
        obs.count(if ra[k][j].key() == rp[k][0].key() { "projection_bit_equal" } else { "projection_not_bit_equal" }, 1);
        if !((ra[k][j].f() - rp[k][0].f()).abs() <= tol) {
            fail!("projection/Bilinear", "T={} lane {j} at ({:e},{:e}) is {:e}, interpolator built from that lane alone gives {:e}", T::NAME, q.0, q.1, ra[k][j].f(), rp[k][0].f());
        }
    }
    obs.nontrivial = g.lanes >= 2;
    if obs.nontrivial {
        g.key(obs);
        obs.key(&j);
    }
    obs.describe(|| {
        let mut d = g.describe::<T>();
        d["lane"] = json!(j);
        d
    });
    Ok(())
}
