//! C02 - the cubic spline passes through the data and is a C2 piecewise cubic.
//! Structural oracle only: no knowledge of the boundary conditions enters the verdict.

use super::c03::{apply, deriv_weights, fit_cubic, k_const, norm1, spline_assumptions};
use super::*;
use crate::adapt::*;
use crate::common::*;
use crate::exact::Rat;
use crate::fail;
use crate::gen::*;
use crate::splinegen::*;
use ndarray::IxDyn;

pub struct C02;

impl Check for C02 {
    fn id(&self) -> &'static str {
        "C02"
    }
    fn entropy_len(&self) -> usize {
        700
    }
    fn cases(&self, tier: Tier) -> u64 {
        tier.pick(3_000, 300_000)
    }
    fn run_case(&self, src: &mut Src, obs: &mut Obs) -> Result<(), Fail> {
        if src.chance(1, 5) {
            run::<f32>(src, obs)
        } else {
            run::<f64>(src, obs)
        }
    }
    fn rule(&self) -> String {
        "same generator as C03 (all boundary selections, n 3..40, mesh ratio <= 2^6, 0..3 trailing axes, f64/f32). The \
         implementation is sampled at 5 abscissae per interval (ends, quarter points, midpoint as floats) and three structural \
         facts are decided in exact arithmetic on those samples: (a) the value at every knot is the datum; (b) on every \
         interval the cubic through 4 samples predicts the 5th (one polynomial per interval); (c) S' and S'' at every \
         interior knot recovered from the left and from the right interval (exact linear functionals of the samples) agree. \
         Allowance = value allowance x 1-norm of the functional weights. Non-trivial: non-uniform axis and n >= 4."
            .into()
    }
    fn assumptions(&self) -> Vec<String> {
        let mut v = spline_assumptions();
        v.push("the scale sigma of the allowance is taken from the implementation's own samples (max |value| + 4 h max |secant slope|); no exact spline and no boundary knowledge enter".into());
        v
    }
    fn required_classes(&self, _t: Tier) -> Vec<&'static str> {
        vec!["T:f64", "T:f32", "n:3", "n:4", "n:5-12", "n:13-40", "bc:Periodic", "bc:Individual", "bc:NotAKnot", "bc:Natural", "bc:Clamped", "axis:non-uniform"]
    }
    fn extra_coverage(&self) -> serde_json::Value {
        json!({"K_f64": k_const::<f64>(), "K_f32": k_const::<f32>()})
    }
}

fn run<T: Flt>(src: &mut Src, obs: &mut Obs) -> Result<(), Fail> {
    obs.class(format!("T:{}", T::NAME));
    let c = SplineCase::gen::<T>(src, &SplineOpts::default());
    c.classes(obs);
    let extrap = src.chance(1, 4);
    let interp = c.build::<T>(extrap)?;
    let n = c.n;
    let ivs: Vec<usize> = if n <= 13 {
        (0..n - 1).collect()
    } else {
        let mut v = vec![0, 1, n - 3, n - 2];
        for _ in 0..4 {
            let i = src.below(n as u64 - 2) as usize;
            v.push(i);
            v.push(i + 1);
        }
        v.sort();
        v.dedup();
        v
    };
    let mut qs: Vec<f64> = Vec::new();
    let mut first: Vec<(usize, usize, usize)> = Vec::new(); // (interval, start, len)
    for &i in &ivs {
        let s = interval_samples::<T>(&c.x, i);
        first.push((i, qs.len(), s.len()));
        qs.extend(s);
    }
    // rotate entry points: values only (agreement of entry points is C09)
    let qt: Vec<T> = qs.iter().map(|&q| T::of(q)).collect();
    let lanes = c.lanes;
    let ep = src.below(3);
    let mut res: Vec<T> = Vec::with_capacity(qs.len() * lanes);
    match ep {
        0 => {
            for &q in &qt {
                match interp.t_interp(q) {
                    Ok(a) => res.extend(a.v),
                    Err(e) => fail!("in-range-rejected", "interp({q}) -> {e}"),
                }
            }
        }
        _ => {
            let qa = ndarray::ArrayD::from_shape_vec(IxDyn(&[qs.len()]), qt.clone()).unwrap();
            match interp.t_array(qa.view(), if ep == 1 { QDim::S1 } else { QDim::Dyn }).unwrap() {
                Ok(a) => res = a.v,
                Err(e) => fail!("in-range-rejected", "interp_array -> {e}"),
            }
        }
    }
    if res.len() != qs.len() * lanes {
        fail!("result-shape", "{} values for {} queries x {lanes} lanes", res.len(), qs.len());
    }
    let k = k_const::<T>();
    for l in 0..lanes {
        let yl = c.lane_data(l);
        let val = |j: usize| res[j * lanes + l].f();
        // Scale of the allowance, taken from the implementation's own curve (not from the exact
        // spline: a wrong boundary condition changes the curve but not the facts checked here):
        // sigma_i = max |sample| + 4 h_i max |secant slope between adjacent samples|
        let vmax = (0..qs.len()).map(|j| val(j).abs()).fold(yl.iter().fold(0f64, |a, v| a.max(v.abs())), f64::max);
        let mut smax = 0f64;
        for &(_, s, len) in &first {
            for j in s..s + len - 1 {
                let d = (val(j + 1) - val(j)).abs() / (qs[j + 1] - qs[j]);
                if d.is_finite() {
                    smax = smax.max(d);
                }
            }
        }
        if !vmax.is_finite() {
            fail!("non-finite-value", "T={} lane {l}: the spline returned a non-finite value for finite data; x={:?} y={:?} bc={:?}", T::NAME, c.x, yl, c.bc.describe());
        }
        let sigma = |i: usize| vmax + 4.0 * (c.x[i + 1] - c.x[i]) * smax;
        // (a) knots
        for &(i, s, len) in &first {
            let tol = k * T::U * sigma(i) * 1.25;
            for (j, knot) in [(s, i), (s + len - 1, i + 1)] {
                let (ok, ne) = within(val(j), &Rat::from_f64(yl[knot]), tol);
                obs.asserts += 1;
                obs.err_l(&format!("knot:{}", T::NAME), ne);
                if !ok {
                    fail!("knot-value", "T={} lane {l}: S(x[{knot}]={:e}) = {:e}, datum {:e}, |diff|/allowance={ne:.3e}; x={:?} y={:?} bc={:?}",
                        T::NAME, c.x[knot], val(j), yl[knot], c.x, yl, c.bc.describe());
                }
            }
        }
        // (b) one cubic per interval
        for &(i, s, len) in &first {
            if len < 5 {
                obs.count("intervals_with_fewer_than_5_distinct_samples", 1);
                continue;
            }
            let tol_v = k * T::U * sigma(i) * 1.25;
            let idx = [s, s + 1, s + 3, s + 4];
            let q4: Vec<Rat> = idx.iter().map(|&j| Rat::from_f64(qs[j])).collect();
            let v4: Vec<Rat> = idx.iter().map(|&j| Rat::from_f64(val(j))).collect();
            let at = Rat::from_f64(qs[s + 2]);
            let pred = fit_cubic(&q4, &v4, &at)[0].clone();
            let w = deriv_weights(&q4, &at, 0);
            let tol = norm1(&w, &[tol_v; 4]) + tol_v;
            let (ok, ne) = within(val(s + 2), &pred, tol);
            obs.asserts += 1;
            obs.err_l(&format!("cubic:{}", T::NAME), ne);
            if !ok {
                fail!("not-one-cubic", "T={} lane {l} interval {i}: the cubic through 4 samples predicts {:e} at {:e}, implementation returns {:e}, |diff|/allowance={ne:.3e}; x={:?} y={:?} bc={:?}",
                    T::NAME, pred.to_f64(), qs[s + 2], val(s + 2), c.x, yl, c.bc.describe());
            }
        }
        // (c) C1 / C2 at interior knots
        for w2 in first.windows(2) {
            let (i, s0, l0) = w2[0];
            let (i1, s1, l1) = w2[1];
            if i1 != i + 1 || l0 < 4 || l1 < 4 {
                continue;
            }
            let knot = Rat::from_f64(c.x[i + 1]);
            let pick = |s: usize, len: usize| [s, s + 1, s + len - 2, s + len - 1];
            let (il, ir) = (pick(s0, l0), pick(s1, l1));
            let ql: Vec<Rat> = il.iter().map(|&j| Rat::from_f64(qs[j])).collect();
            let qr: Vec<Rat> = ir.iter().map(|&j| Rat::from_f64(qs[j])).collect();
            let vl: Vec<Rat> = il.iter().map(|&j| Rat::from_f64(val(j))).collect();
            let vr: Vec<Rat> = ir.iter().map(|&j| Rat::from_f64(val(j))).collect();
            let tl = k * T::U * sigma(i) * 1.25;
            let tr = k * T::U * sigma(i + 1) * 1.25;
            for ord in [1usize, 2] {
                let wl = deriv_weights(&ql, &knot, ord);
                let wr = deriv_weights(&qr, &knot, ord);
                let (dl, dr) = (apply(&wl, &vl), apply(&wr, &vr));
                let tol = norm1(&wl, &[tl; 4]) + norm1(&wr, &[tr; 4]);
                let d = dl.sub(&dr).abs();
                let ne = if tol > 0.0 { d.to_f64() / tol } else if d.is_zero() { 0.0 } else { f64::INFINITY };
                obs.asserts += 1;
                obs.err_l(&format!("C{ord}:{}", T::NAME), ne);
                if !(d.is_zero() || (tol > 0.0 && d.le(&Rat::from_f64(tol)))) {
                    fail!(format!("derivative-jump/order{ord}"), "T={} lane {l}: S{} jumps at interior knot x[{}]={:e}: left {:e}, right {:e}, |diff|/allowance={ne:.3e}; x={:?} y={:?} bc={:?}",
                        T::NAME, if ord == 1 { "'" } else { "''" }, i + 1, c.x[i + 1], dl.to_f64(), dr.to_f64(), c.x, yl, c.bc.describe());
                }
            }
        }
    }
    obs.nontrivial = !is_uniform(&c.x) && n >= 4;
    if obs.nontrivial {
        c.key(obs);
    }
    obs.describe(|| c.describe::<T>());
    Ok(())
}
