//! C04 - Bilinear 2-D interpolation returns the exact bilinear blend of the cell.

use super::*;
use crate::adapt::*;
use crate::common::*;
use crate::exact::Rat;
use crate::fail;
use crate::gen::*;
use ndarray::IxDyn;

pub struct C04;
pub const ULPS2: f64 = 16.0;

impl Check for C04 {
    fn id(&self) -> &'static str {
        "C04"
    }
    fn entropy_len(&self) -> usize {
        900
    }
    fn cases(&self, tier: Tier) -> u64 {
        tier.pick(60_000, 2_000_000)
    }
    fn run_case(&self, src: &mut Src, obs: &mut Obs) -> Result<(), Fail> {
        if src.chance(1, 5) {
            run::<f32>(src, obs)
        } else {
            run::<f64>(src, obs)
        }
    }
    fn rule(&self) -> String {
        "random grids nx, ny in 2..12 (non-square 80%), independent axis classes for x and y (default index axes or explicit), \
         data of 2..6 static or dynamic dimensions (0..4 trailing axes), f64/f32; 12..32 in-range queries each: grid nodes, points \
         on grid lines, cell borders +-1 ulp, cell interiors, through interp_scalar/interp/interp_array (rank 1, 2, dyn). Oracle: exact \
         rational bilinear blend of the true cell, allowance 16 ulp of the largest corner magnitude. Companions: (a) on a grid line \
         y = y[j] the value equals Interp1D-Linear of column j; (b) the transposed problem (data^T, axes swapped, coordinates swapped) \
         gives the same value. Non-trivial: non-square grid, some lane with twist z11-z12-z21+z22 != 0 and a query interior to a cell."
            .into()
    }
    fn assumptions(&self) -> Vec<String> {
        vec![
            "allowance 16 ulp of the largest corner magnitude (32 u M); companions 2x that".into(),
            "magnitudes inside the exponent window".into(),
            "exact reference: hand-written rational arithmetic".into(),
        ]
    }
    fn required_classes(&self, _t: Tier) -> Vec<&'static str> {
        vec!["T:f64", "T:f32", "grid:non-square", "q2:node", "q2:line-x", "q2:line-y", "q2:interior", "q2:border", "ep:scalar", "ep:array2", "axes:default", "axes:explicit"]
    }
    fn extra_coverage(&self) -> serde_json::Value {
        json!({"allowance_ulps_of_max_corner": ULPS2})
    }
}

pub fn exact_bilinear(x: (f64, f64), y: (f64, f64), z: [f64; 4], q: (f64, f64)) -> Rat {
    // z = [z11, z12, z21, z22] with first index x
    let r = Rat::from_f64;
    let s = r(q.0).sub(&r(x.0)).div(&r(x.1).sub(&r(x.0)));
    let t = r(q.1).sub(&r(y.0)).div(&r(y.1).sub(&r(y.0)));
    let z1 = r(z[0]).add(&r(z[2]).sub(&r(z[0])).mul(&s));
    let z2 = r(z[1]).add(&r(z[3]).sub(&r(z[1])).mul(&s));
    z1.add(&z2.sub(&z1).mul(&t))
}

/// 2-D query on a grid, with its class
pub fn query2<T: Flt>(src: &mut Src, x: &[f64], y: &[f64]) -> ((f64, f64), &'static str) {
    let knot = |src: &mut Src, a: &[f64]| a[src.below(a.len() as u64) as usize];
    let inner = |src: &mut Src, a: &[f64]| {
        let i = src.below(a.len() as u64 - 1) as usize;
        let f = src.pick(&[0.5, 0.25, 0.75, -1.0]);
        let f = if f < 0.0 { src.unit() } else { f };
        T::of(a[i] + (a[i + 1] - a[i]) * f).f().clamp(a[0], a[a.len() - 1])
    };
    let near = |src: &mut Src, a: &[f64]| {
        let v = T::of(knot(src, a));
        let v = if src.bool() { v.up() } else { v.down() };
        v.f().clamp(a[0], a[a.len() - 1])
    };
    // diagonal queries x == y (bit-equal), when that value lies in both ranges
    if src.chance(1, 8) {
        let v = inner(src, x);
        if y[0] <= v && v <= y[y.len() - 1] {
            return ((v, v), "q2:diagonal");
        }
    }
    match src.weighted(&[3, 2, 2, 3, 5]) {
        0 => ((knot(src, x), knot(src, y)), "q2:node"),
        1 => ((knot(src, x), inner(src, y)), "q2:line-x"),
        2 => ((inner(src, x), knot(src, y)), "q2:line-y"),
        3 => {
            if src.bool() {
                ((near(src, x), inner(src, y)), "q2:border")
            } else {
                ((inner(src, x), near(src, y)), "q2:border")
            }
        }
        _ => ((inner(src, x), inner(src, y)), "q2:interior"),
    }
}

pub struct Grid {
    pub nx: usize,
    pub ny: usize,
    pub x: Vec<f64>,
    pub y: Vec<f64>,
    pub cx: AxisClass,
    pub cy: AxisClass,
    pub trailing: Vec<usize>,
    pub lanes: usize,
    pub data: Vec<f64>,
    pub dd: DDim,
    pub lay: crate::layout::Lay,
    pub xlay: crate::layout::Lay,
    pub ylay: crate::layout::Lay,
}

impl Grid {
    pub fn gen<T: Flt>(src: &mut Src, max_trailing: usize) -> Grid {
        // mostly 2..12, occasionally larger grids (size thresholds)
        let big = src.chance(1, 30);
        let nx = if big { src.usize_in(13, 48) } else { src.usize_in(2, 12) };
        let ny = if src.chance(1, 5) { nx } else if big && src.bool() { src.usize_in(13, 48) } else { src.usize_in(2, 12) };
        let default_axes = src.chance(1, 4);
        let (cx, mut cy) = if default_axes { (AxisClass::Index, AxisClass::Index) } else {
            let mut a = axis_class(src);
            let mut b = axis_class(src);
            // explicit means explicit: index class is produced only through default_axes or singly
            if a == AxisClass::Index && b == AxisClass::Index {
                a = AxisClass::Random;
                b = AxisClass::Geometric;
            }
            (a, b)
        };
        let x = axis::<T>(src, nx, cx, None);
        let mut y = axis::<T>(src, ny, cy, None);
        // related axes: y is x with another pitch, sharing its first node (square arrays with a different physical
        // pitch per axis), or the very same axis
        if nx == ny && !default_axes && src.chance(1, 6) {
            let f = src.pick(&[1.0, 0.5, 2.0, 0.25, 0.0, 0.0]);
            if f == 0.0 {
                // y = every second element of the allocation whose first nx elements are x (the two axes can then be
                // views that start at the same element with the same length and different strides)
                let step = x[nx - 1] - x[nx - 2];
                let mut ext = x.clone();
                while ext.len() < 2 * nx - 1 {
                    let l = *ext.last().unwrap();
                    ext.push(T::of(l + step * (1.0 + src.unit())).f());
                }
                y = (0..nx).map(|i| ext[2 * i]).collect();
            } else {
                y = x.iter().map(|v| T::of(x[0] + (v - x[0]) * f).f()).collect();
            }
            if !y.windows(2).all(|w| w[0] < w[1]) || !y.iter().all(|v| v.is_finite()) {
                y = x.clone();
            }
            // y is now an explicit axis whatever its class was
            cy = AxisClass::Random;
        }
        let mut trailing = trailing_shape(src, max_trailing, &[1, 2, 3]);
        while product(&trailing) > 8 {
            trailing.pop();
        }
        // many lanes on small grids (size thresholds of per-row processing)
        if max_trailing >= 1 && nx * ny <= 16 && src.chance(1, 12) {
            trailing = wide_trailing(src, max_trailing);
        }
        let lanes = product(&trailing);
        let vc = val_class(src);
        let sc = scale_exp::<T>(src);
        // bulky tables draw their numbers from expanded entropy (the draws behind them are not starved)
        let mut data = if nx * ny * lanes > 150 {
            let ent = expand(src, 3 * nx * ny * lanes + 8);
            values::<T>(&mut Src::new(&ent), nx * ny * lanes, vc, sc)
        } else {
            values::<T>(src, nx * ny * lanes, vc, sc)
        };
        // structured tables: checkerboard / symmetric Toeplitz d[i][j] = f(|i-j|) (equalities between the corners of a cell)
        if src.chance(1, 12) {
            let f: Vec<f64> = (0..nx.max(ny)).map(|_| value::<T>(src, ValClass::SmallInt, 0)).collect();
            let checker = src.bool();
            for i in 0..nx {
                for j in 0..ny {
                    for l in 0..lanes {
                        let d = i.abs_diff(j);
                        data[(i * ny + j) * lanes + l] = if checker { f[(i + j + l) % 2] } else { f[d] + l as f64 };
                    }
                }
            }
        }
        let rank = 2 + trailing.len();
        let dd = if src.chance(1, 4) { DDim::Dyn } else { DDim::of_rank(rank) };
        let lay = crate::layout::pick_lay(src);
        let (xlay, ylay) = (crate::layout::pick_lay(src), crate::layout::pick_lay(src));
        Grid { nx, ny, x, y, cx, cy, trailing, lanes, data, dd, lay, xlay, ylay }
    }
    /// Some(allocation) when both axes are explicit, equally long, different, and y[i] == x[2i] wherever 2i < n
    pub fn alias_buffer(&self) -> Option<Vec<f64>> {
        let n = self.nx;
        if self.cx == AxisClass::Index || self.cy == AxisClass::Index || self.ny != n || n < 2 || self.x == self.y {
            return None;
        }
        if !(0..n).all(|i| 2 * i >= n || self.y[i] == self.x[2 * i]) {
            return None;
        }
        let mut buf = vec![0.0; 2 * n - 1];
        buf[..n].copy_from_slice(&self.x);
        for i in 0..n {
            if 2 * i >= n {
                buf[2 * i] = self.y[i];
            }
        }
        // odd positions behind x: anything (never read through either view)
        for k in (n..2 * n - 1).filter(|k| k % 2 == 1) {
            buf[k] = -1.0;
        }
        Some(buf)
    }
    pub fn shape(&self) -> Vec<usize> {
        let mut s = vec![self.nx, self.ny];
        s.extend_from_slice(&self.trailing);
        s
    }
    pub fn z(&self, i: usize, j: usize, l: usize) -> f64 {
        self.data[(i * self.ny + j) * self.lanes + l]
    }
    pub fn build<T: Flt>(&self, extrapolate: bool) -> Result<Box<dyn I2<T>>, Fail> {
        let xo = if self.cx == AxisClass::Index { None } else { Some(crate::layout::realise1(arr_1::<T>(&self.x), self.xlay, T::of(-9.0e9))) };
        let yo = if self.cy == AxisClass::Index { None } else { Some(crate::layout::realise1(arr_1::<T>(&self.y), self.ylay, T::of(-9.0e9))) };
        // axes that can share one allocation (y[i] == x[2i]) are handed over as two shared arrays that start at the same
        // element with the same length and different strides
        if let Some(buf) = self.alias_buffer() {
            let (xa, ya) = aliasing_pair::<T>(buf.iter().map(|&v| T::of(v)).collect(), self.nx);
            return match build2_any::<T, ndarray::OwnedArcRepr<T>>(Some(xa), Some(ya), crate::layout::realise(arr_d::<T>(&self.shape(), &self.data), self.lay, T::of(-3.5e5)), self.dd, extrapolate) {
                Some(Ok(i)) => Ok(i),
                Some(Err(e)) => Err(Fail::new("build-failed", format!("valid grid (axes = two aliasing views of one allocation) rejected: {e}"))),
                None => Err(Fail::new("oracle-bug", "grid not expressible")),
            };
        }
        // 1 of 10 explicit grids goes through `new_unchecked` (a function of the content)
        let h = self.data.iter().take(3).fold(self.nx as u64, |h, v| crate::common::splitmix(h ^ v.to_bits()));
        if xo.is_some() && yo.is_some() && h % 10 == 0 {
            return match build2_unchecked::<T>(xo.unwrap(), yo.unwrap(), crate::layout::realise(arr_d::<T>(&self.shape(), &self.data), self.lay, T::of(-3.5e5)), self.dd, extrapolate) {
                Some(i) => Ok(i),
                None => Err(Fail::new("oracle-bug", "grid not expressible")),
            };
        }
        match build2::<T>(xo, yo, crate::layout::realise(arr_d::<T>(&self.shape(), &self.data), self.lay, T::of(-3.5e5)), self.dd, extrapolate) {
            Some(Ok(i)) => Ok(i),
            Some(Err(e)) => Err(Fail::new("build-failed", format!("valid grid rejected: {e}"))),
            None => Err(Fail::new("oracle-bug", "grid not expressible")),
        }
    }
    pub fn classes(&self, obs: &mut Obs) {
        obs.class(if self.nx == self.ny { "grid:square" } else { "grid:non-square" });
        obs.class(format!("xaxis:{}", self.cx.name()));
        obs.class(format!("yaxis:{}", self.cy.name()));
        obs.class(if self.cx == AxisClass::Index && self.cy == AxisClass::Index { "axes:default" } else { "axes:explicit" });
        obs.class(format!("ddim:{}", self.dd.name()));
        obs.class(format!("rank:{}", 2 + self.trailing.len()));
        if self.alias_buffer().is_some() {
            obs.class("axes:aliasing-views");
        }
        if self.lanes >= 32 {
            obs.class("lanes:32+");
        }
        if self.nx.max(self.ny) > 12 {
            obs.class("grid:13+");
        }
        obs.class(format!("datalayout:{}", self.lay.0.name()));
    }
    pub fn describe<T: Flt>(&self) -> serde_json::Value {
        json!({"T": T::NAME, "nx": self.nx, "ny": self.ny, "x": ffs::<T>(&self.x, 6), "y": ffs::<T>(&self.y, 6),
            "xclass": self.cx.name(), "yclass": self.cy.name(), "trailing": self.trailing, "data_dim": self.dd.name(),
            "data": ffs::<T>(&self.data, 6)})
    }
    pub fn key(&self, obs: &mut Obs) {
        obs.key_f64s(&self.x);
        obs.key_f64s(&self.y);
        obs.key_f64s(&self.data);
    }
}

/// evaluate a batch of 2-D queries through one of the entry points; returns per query the lanes
pub fn eval2<T: Flt>(interp: &dyn I2<T>, qs: &[(f64, f64)], ep: usize, lanes: usize, trailing: &[usize]) -> Result<Vec<Vec<T>>, Fail> {
    let nq = qs.len();
    let mut res = Vec::with_capacity(nq);
    match ep {
        0 => {
            for &(a, b) in qs {
                match interp.t_scalar(T::of(a), T::of(b)).expect("scalar entry on non-Ix2 data") {
                    Ok(v) => res.push(vec![v]),
                    Err(e) => fail!("in-range-rejected", "interp_scalar({a:e},{b:e}) -> {e}"),
                }
            }
        }
        1 => {
            for &(a, b) in qs {
                match interp.t_interp(T::of(a), T::of(b)) {
                    Ok(v) => res.push(v.v),
                    Err(e) => fail!("in-range-rejected", "interp({a:e},{b:e}) -> {e}"),
                }
            }
        }
        _ => {
            let (qshape, qd) = match ep {
                2 => (vec![nq], QDim::S1),
                3 => {
                    let a = if nq % 4 == 0 { 4 } else if nq % 3 == 0 { 3 } else if nq % 2 == 0 { 2 } else { 1 };
                    (vec![a, nq / a], QDim::S2)
                }
                _ => (vec![nq], QDim::Dyn),
            };
            let xa = ndarray::ArrayD::from_shape_vec(IxDyn(&qshape), qs.iter().map(|q| T::of(q.0)).collect()).unwrap();
            let ya = ndarray::ArrayD::from_shape_vec(IxDyn(&qshape), qs.iter().map(|q| T::of(q.1)).collect()).unwrap();
            // the memory layout of the query arrays is varied as a deterministic function of their content
            let hq = qs.iter().fold(0x51u64, |h, q| crate::common::splitmix(h ^ q.0.to_bits() ^ q.1.to_bits().rotate_left(32)));
            let xa = crate::layout::realise(xa, crate::layout::lay_from_hash(hq), T::of(-4.0e4));
            let ya = crate::layout::realise(ya, crate::layout::lay_from_hash(hq ^ 0xFACE), T::of(-4.0e4));
            match interp.t_array(xa.view(), ya.view(), qd).unwrap() {
                Ok(a) => {
                    let mut want = qshape.clone();
                    want.extend_from_slice(trailing);
                    if a.shape != want {
                        fail!("result-shape", "interp_array shape {:?}, expected {:?}", a.shape, want);
                    }
                    for k in 0..nq {
                        res.push(a.v[k * lanes..(k + 1) * lanes].to_vec());
                    }
                }
                Err(e) => fail!("in-range-rejected", "interp_array -> {e}"),
            }
        }
    }
    Ok(res)
}

fn run<T: Flt>(src: &mut Src, obs: &mut Obs) -> Result<(), Fail> {
    obs.class(format!("T:{}", T::NAME));
    let g = Grid::gen::<T>(src, 4);
    g.classes(obs);
    let interp = g.build::<T>(src.chance(1, 4))?;
    let nq = src.usize_in(12, 32);
    let mut qs = Vec::new();
    let mut qc = Vec::new();
    for _ in 0..nq {
        let (q, c) = query2::<T>(src, &g.x, &g.y);
        qs.push(q);
        qc.push(c);
    }
    let ep = src.weighted(&[2, 2, 3, 2, 1]);
    let ep = if ep == 0 && g.dd != DDim::S2 { 1 } else { ep };
    let epn = ["scalar", "interp", "array1", "array2", "arraydyn"][ep];
    obs.class(format!("ep:{epn}"));
    let res = eval2::<T>(interp.as_ref(), &qs, ep, g.lanes, &g.trailing)?;

    // companions are built lazily
    let do_transpose = src.chance(1, 3);
    let tr = if do_transpose {
        // transposed data: (ny, nx, trailing)
        let mut d = vec![0.0; g.data.len()];
        for i in 0..g.nx {
            for j in 0..g.ny {
                for l in 0..g.lanes {
                    d[(j * g.nx + i) * g.lanes + l] = g.z(i, j, l);
                }
            }
        }
        let gt = Grid { nx: g.ny, ny: g.nx, x: g.y.clone(), y: g.x.clone(), cx: g.cy, cy: g.cx, trailing: g.trailing.clone(), lanes: g.lanes, data: d, dd: g.dd, lay: g.lay, xlay: g.ylay, ylay: g.xlay };
        let it = gt.build::<T>(false)?;
        let sw: Vec<(f64, f64)> = qs.iter().map(|q| (q.1, q.0)).collect();
        obs.class("companion:transpose");
        Some(eval2::<T>(it.as_ref(), &sw, if ep == 0 { 0 } else { 2 }, g.lanes, &g.trailing)?)
    } else {
        None
    };

    let mut twist_interior = false;
    for (k, &(qx, qy)) in qs.iter().enumerate() {
        let i = bracket(&g.x, qx);
        let j = bracket(&g.y, qy);
        if k < 8 {
            obs.class(qc[k]);
        }
        if res[k].len() != g.lanes {
            fail!("result-shape", "query {k}: {} lanes, expected {}", res[k].len(), g.lanes);
        }
        for l in 0..g.lanes {
            let z = [g.z(i, j, l), g.z(i, j + 1, l), g.z(i + 1, j, l), g.z(i + 1, j + 1, l)];
            let mut m = z.iter().fold(0f64, |a, v| a.max(v.abs()));
            // on a grid line the neighbouring cell surrounds the query as well: either may be used
            let (ilo, ihi) = (if qx == g.x[i] && i > 0 { i - 1 } else { i }, if qx == g.x[i + 1] && i + 2 < g.nx { i + 2 } else { i + 1 });
            let (jlo, jhi) = (if qy == g.y[j] && j > 0 { j - 1 } else { j }, if qy == g.y[j + 1] && j + 2 < g.ny { j + 2 } else { j + 1 });
            for a in ilo..=ihi {
                for b in jlo..=jhi {
                    m = m.max(g.z(a, b, l).abs());
                }
            }
            let tol = ULPS2 * 2.0 * T::U * m;
            let want = exact_bilinear((g.x[i], g.x[i + 1]), (g.y[j], g.y[j + 1]), z, (qx, qy));
            let got = res[k][l].f();
            let (ok, ne) = within(got, &want, tol + T::TINY);
            obs.asserts += 1;
            obs.err_l("blend", ne);
            if !ok {
                fail!(format!("blend/{}", qc[k]), "T={} ep={epn} grid {}x{} lane {l}: q=({qx:e},{qy:e}) cell x[{i}] y[{j}] corners {:?} got {got:e}, exact blend {:e}, |diff|/allowance={ne:.3e}",
                    T::NAME, g.nx, g.ny, z, want.to_f64());
            }
            if let Some(t) = &tr {
                let gt = t[k][l].f();
                let (ok, ne) = within(gt, &want, tol + T::TINY);
                obs.asserts += 1;
                obs.err_l("transpose", ne);
                if !ok {
                    fail!("transpose-symmetry", "T={} grid {}x{} lane {l}: transposed problem gives {gt:e} at swapped q=({qy:e},{qx:e}), blend is {:e} (direct result {got:e})", T::NAME, g.nx, g.ny, want.to_f64());
                }
            }
            let twist = z[0] - z[1] - z[2] + z[3];
            if twist != 0.0 && qc[k] == "q2:interior" {
                twist_interior = true;
            }
        }
        // companion (a): on a grid line y == y[j'] the 1-D linear interpolation of that column
        if (qc[k] == "q2:line-y" || qc[k] == "q2:node") && k < 6 {
            if let Some(jj) = g.y.iter().position(|&v| v == qy) {
                let col: Vec<f64> = (0..g.nx).flat_map(|i| (0..g.lanes).map(move |l| (i, l))).map(|(i, l)| g.z(i, jj, l)).collect();
                let mut sh = vec![g.nx];
                sh.extend_from_slice(&g.trailing);
                let xo = if g.cx == AxisClass::Index { None } else { Some(arr_1::<T>(&g.x)) };
                let lin = match build1::<T>(xo, arr_d::<T>(&sh, &col), DDim::of_rank(sh.len()), &Strat1::Linear { extrapolate: false }) {
                    Some(Ok(i)) => i,
                    _ => fail!("build-failed", "1-D companion could not be built"),
                };
                let r1 = match lin.t_interp(T::of(qx)) {
                    Ok(a) => a.v,
                    Err(e) => fail!("in-range-rejected", "1-D companion: {e}"),
                };
                obs.class("companion:grid-line");
                for l in 0..g.lanes {
                    // rounding of the bilinear result is relative to the largest corner of the cell it
                    // used (which may contain a neighbouring grid line), that of the 1-D result to its bracket
                    let i = bracket(&g.x, qx);
                    let jc = bracket(&g.y, qy);
                    let mc = [g.z(i, jc, l), g.z(i, jc + 1, l), g.z(i + 1, jc, l), g.z(i + 1, jc + 1, l)].iter().fold(0f64, |a, v| a.max(v.abs()));
                    let m = g.z(i, jj, l).abs().max(g.z(i + 1, jj, l).abs());
                    let tol = ULPS2 * 2.0 * T::U * mc + super::c01::ULPS * 2.0 * T::U * m;
                    let d = (res[k][l].f() - r1[l].f()).abs();
                    obs.asserts += 1;
                    if d == 0.0 {
                        obs.count("grid_line_bit_equal", 1);
                    } else {
                        obs.count("grid_line_not_bit_equal", 1);
                    }
                    if !(d <= tol) {
                        fail!("grid-line", "T={} lane {l}: on grid line y={qy:e} bilinear gives {:e}, 1-D linear of that column gives {:e}", T::NAME, res[k][l].f(), r1[l].f());
                    }
                }
            }
        }
    }
    obs.nontrivial = g.nx != g.ny && twist_interior;
    if obs.nontrivial {
        g.key(obs);
        obs.key_f64s(&qs.iter().flat_map(|q| [q.0, q.1]).collect::<Vec<_>>());
    }
    obs.describe(|| {
        let mut d = g.describe::<T>();
        d["entry"] = json!(epn);
        d["queries"] = json!(qs.iter().take(4).map(|q| format!("({:e},{:e})", q.0, q.1)).collect::<Vec<_>>());
        d
    });
    Ok(())
}
