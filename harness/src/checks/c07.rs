//! C07 - a periodic spline with extrapolation is evaluated as a periodic function.

use super::c03::k_const;
use super::*;
use crate::adapt::*;
use crate::common::*;
use crate::exact::Rat;
use crate::fail;
use crate::gen::*;
use crate::oracle::*;
use crate::splinegen::*;

pub struct C07;

impl Check for C07 {
    fn id(&self) -> &'static str {
        "C07"
    }
    fn entropy_len(&self) -> usize {
        700
    }
    fn cases(&self, tier: Tier) -> u64 {
        tier.pick(5_000, 400_000)
    }
    fn run_case(&self, src: &mut Src, obs: &mut Obs) -> Result<(), Fail> {
        if src.chance(1, 5) {
            run::<f32>(src, obs)
        } else {
            run::<f64>(src, obs)
        }
    }
    fn rule(&self) -> String {
        "periodic data sets (first row == last row; n = 3, 4, 5..40; uniform / non-uniform / dyadic axes; 0..3 trailing axes; f64/f32) \
         built with BoundaryCondition::Periodic and extrapolate(true). Queries q = fl(x_b + k*P): x_b from in-range classes plus the \
         seam (both ends) and +-1..4 ulps around it and its images; k in {+-1,+-2,+-3,+-10^3,+-10^6, random} (f32: |k| <= 10^3). Oracle: \
         exact wrap w = q - floor((q-x0)/P)*P in rationals; S_impl(q) is compared with the implementation's own in-range value at \
         the float nearest w (the verdict; agreement with the certified exact periodic spline at w is recorded as information only, because it \
         additionally needs C02/C03); allowance L*delta_arg + K*u*sigma where \
         delta_arg = 8u(|q|+|k|P+|x0|+|xn|) and L = exact max |S'|. Images of the ends must return the common end datum within the same \
         allowance. No finite query may be rejected. Non-trivial: wrap count != 0."
            .into()
    }
    fn assumptions(&self) -> Vec<String> {
        let mut v = super::c03::spline_assumptions();
        v.push("argument-rounding allowance delta_arg = 8u(|q| + |k|P + |x0| + |xn|) times the exact Lipschitz constant of the spline".into());
        v.push("non-finite queries are outside the property".into());
        v
    }
    fn required_classes(&self, _t: Tier) -> Vec<&'static str> {
        vec!["T:f64", "T:f32", "n:3", "n:4", "k:+-1..3", "k:1000..1e6", "k:>1e6", "k:negative", "k:positive", "base:seam", "base:interior", "axis:non-uniform"]
    }
    fn extra_coverage(&self) -> serde_json::Value {
        json!({"K_f64": k_const::<f64>(), "K_f32": k_const::<f32>()})
    }
}

fn run<T: Flt>(src: &mut Src, obs: &mut Obs) -> Result<(), Fail> {
    obs.class(format!("T:{}", T::NAME));
    let c = SplineCase::gen::<T>(src, &SplineOpts { periodic: Some(true), ..SplineOpts::default() });
    c.classes(obs);
    let interp = c.build::<T>(true)?;
    let n = c.n;
    let (x0, xn) = (c.x[0], c.x[n - 1]);
    let p = Rat::from_f64(xn).sub(&Rat::from_f64(x0));
    let pf = xn - x0;
    let nq = src.usize_in(8, 20);
    let mut qs: Vec<f64> = Vec::new();
    let mut ks: Vec<i64> = Vec::new();
    let mut any_wrap = false;
    for j in 0..nq {
        // base point
        let (xb, bc) = match src.weighted(&[3, 2, 2, 4]) {
            0 => (if src.bool() { x0 } else { xn }, "base:seam"),
            1 => {
                let mut v = T::of(if src.bool() { x0 } else { xn });
                for _ in 0..src.usize_in(1, 4) {
                    v = if v.f() <= x0 { v.up() } else { v.down() };
                }
                (v.f(), "base:near-seam")
            }
            2 => (c.x[src.below(n as u64) as usize], "base:knot"),
            _ => (query_in_range::<T>(src, &c.x).0, "base:interior"),
        };
        let kmax: i64 = if T::MANT == 53 { 1_000_000 } else { 1_000 };
        let k = match src.weighted(&[1, 4, 2, 2, 2, 2]) {
            0 => 0,
            1 => src.int_in(1, 3),
            2 => 1000,
            3 => kmax,
            4 => src.int_in(1, kmax),
            // very far: any power-of-two magnitude up to where the phase still has ~10 significant bits
            _ => (1i64 << src.int_in(if T::MANT == 53 { 20 } else { 10 }, if T::MANT == 53 { 42 } else { 13 })) + src.int_in(0, 1000),
        } * if src.bool() { 1 } else { -1 };
        let mut q = T::of(xb + k as f64 * pf);
        // a few ulps around an image of the seam
        if bc == "base:seam" && src.chance(1, 3) {
            for _ in 0..src.usize_in(1, 3) {
                q = if src.bool() { q.up() } else { q.down() };
            }
        }
        if !q.f().is_finite() {
            continue;
        }
        qs.push(q.f());
        ks.push(k);
        if j < 8 {
            obs.class(bc);
            obs.class(match k.abs() {
                0 => "k:0",
                1..=3 => "k:+-1..3",
                4..=999 => "k:4..999",
                1000..=1_000_000 => "k:1000..1e6",
                _ => "k:>1e6",
            });
            if k != 0 {
                obs.class(if k < 0 { "k:negative" } else { "k:positive" });
            }
        }
    }
    let ep = pick_ep(src, c.dd == DDim::S1);
    obs.class(format!("ep:{}", EP_NAMES[ep]));
    let res = match catch(|| eval1::<T>(interp.as_ref(), &qs, ep, c.lanes, &c.trailing)) {
        Ok(Ok(r)) => r,
        Ok(Err(f)) => fail!("finite-query-rejected", "T={} periodic spline with extrapolation: {}", T::NAME, f.msg),
        Err(pn) => fail!("panic", "T={} periodic spline query panicked: {pn}; x={:?} qs={:?}", T::NAME, c.x, qs),
    };
    // exact wraps
    let rx0 = Rat::from_f64(x0);
    let mut ws: Vec<Rat> = Vec::new();
    let mut wfl: Vec<f64> = Vec::new();
    let mut wraps: Vec<bool> = Vec::new();
    for &q in &qs {
        let rq = Rat::from_f64(q);
        let m = rq.sub(&rx0).div(&p).floor();
        let w = rq.sub(&Rat::from_big(m.clone()).mul(&p));
        // nearest float in [x0, xn]
        let wf = T::of(w.to_f64()).f().clamp(x0, xn);
        wraps.push(!m.is_zero());
        any_wrap |= !m.is_zero();
        ws.push(w);
        wfl.push(wf);
    }
    let own = eval1::<T>(interp.as_ref(), &wfl, 1, c.lanes, &c.trailing)?;
    let k = k_const::<T>();
    for l in 0..c.lanes {
        let yl = c.lane_data(l);
        let sp = match Spline::solve(&c.x, &yl, &Bounds::Periodic) {
            Ok(s) => s,
            Err(e) => fail!("oracle-bug", "exact periodic spline failed: {e}"),
        };
        // exact Lipschitz constant: max |S'| over all pieces
        let mut lmax = 0f64;
        let mut smax = 0f64;
        for i in 0..n - 1 {
            lmax = lmax.max(sp.k[i].abs_upper_f64()).max(sp.k[i + 1].abs_upper_f64());
            // vertex of S' where S'' = 0
            let c3 = &sp.c[i][3];
            if !c3.is_zero() {
                let tv = sp.c[i][2].neg().div(&c3.mul_i(3));
                if tv.signum() > 0 && tv.lt(&sp.h[i]) {
                    lmax = lmax.max(sp.d1(i, &sp.x[i].add(&tv)).abs_upper_f64());
                }
            }
            smax = smax.max(sp.sigma(i));
        }
        for (j, &q) in qs.iter().enumerate() {
            let w = &ws[j];
            // piece containing w
            let mut i = 0;
            for kk in 0..n - 1 {
                if sp.x[kk].le(w) {
                    i = kk;
                }
            }
            let want = sp.eval(i, w);
            let darg = if wraps[j] { 8.0 * T::U * (q.abs() + (ks[j].abs() as f64 + 1.0) * pf + x0.abs() + xn.abs()) } else { 0.0 };
            let tol = lmax * darg + k * T::U * smax * 1.25 + T::TINY;
            let got = res[j][l].f();
            // information only: agreement with the *mathematical* periodic spline also needs C02/C03
            // to hold; the verdict of C07 rests on the implementation's own in-range value below
            let (ok, ne) = within(got, &want, tol);
            obs.err_l(&format!("exact(info):{}", T::NAME), ne.min(1e6));
            if !ok {
                obs.count("differs_from_exact_periodic_spline(info, see C03)", 1);
            }
            // (a) the implementation's own in-range value at the float nearest w
            let dw = Rat::from_f64(wfl[j]).sub(w).abs().abs_upper_f64();
            // distance on the circle: w just below xn may be represented by x0-side float after clamping
            let tol_a = lmax * (darg + dw.min(pf)) + 2.0 * k * T::U * smax * 1.25 + T::TINY;
            let o = own[j][l].f();
            obs.asserts += 1;
            let d = (got - o).abs();
            obs.err_l(&format!("own:{}", T::NAME), if tol_a > 0.0 { d / tol_a } else { 0.0 });
            if !(d <= tol_a) {
                fail!("not-periodic/own-value", "T={} lane {l}: q={q:e} (k={}): got {got:e}, own in-range value at wrapped point {:e} is {o:e}, allowance {tol_a:.3e}; x={:?} y={:?}", T::NAME, ks[j], wfl[j], c.x, yl);
            }
        }
    }
    obs.nontrivial = any_wrap;
    if any_wrap {
        c.key(obs);
        obs.key_f64s(&qs);
    }
    obs.describe(|| {
        let mut d = c.describe::<T>();
        d["queries"] = ffs::<T>(&qs, 6);
        d["wrap_counts"] = json!(ks.iter().take(6).collect::<Vec<_>>());
        d
    });
    Ok(())
}
