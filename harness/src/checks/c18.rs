//! C18 - custom strategies get validated inputs, correct targets, faithful accessors.

use super::c05::{in_closed, make_q, RQ};
use super::c12::{classify, Mono};
use super::*;
use crate::adapt::*;
use crate::common::*;
use crate::fail;
use crate::gen::*;
use crate::gen1d::qshape;
use crate::recstrat::*;
use ndarray::{Array1, ArrayD, IxDyn};
use std::sync::{Arc, Mutex};

pub struct C18;

impl Check for C18 {
    fn id(&self) -> &'static str {
        "C18"
    }
    fn entropy_len(&self) -> usize {
        400
    }
    fn cases(&self, tier: Tier) -> u64 {
        tier.pick(800_000, 20_000_000)
    }
    fn run_case(&self, src: &mut Src, obs: &mut Obs) -> Result<(), Fail> {
        let two_d = src.chance(1, 3);
        match (two_d, src.chance(1, 5)) {
            (false, false) => run::<f64>(src, obs, false),
            (false, true) => run::<f32>(src, obs, false),
            (true, false) => run::<f64>(src, obs, true),
            (true, true) => run::<f32>(src, obs, true),
        }
    }
    fn rule(&self) -> String {
        "recording strategies for Interp1D and Interp2D with declared minimum 0..4 that log every trait call (axis copy, data shape, query bits, \
         target shape) and write f(query, lane index) into the target; data rank 1..4 (2-D: 2..4) static and dynamic; valid and invalid builder \
         inputs (length below the minimum, axis of wrong length, tie / swap / NaN in an axis); every entry point with query dim types Ix0..Ix3 / \
         IxDyn, query arrays in standard and non-standard memory layouts (Fortran, strided, reversed, permuted; xs and ys independently), and queries that include out-of-range values, +-inf and NaN; failure injection in build (each BuilderError kind with a marker \
         message) and at a generated call index of a batch. Oracle: the strategy's build is reached only with strictly increasing axes of the \
         data's length and at least the declared minimum of points, and sees exactly the caller's axes and data shape; every interp_into receives \
         the query value(s) bit-for-bit, in query order, and a target of shape data.shape minus the interpolated axes; the caller's result holds \
         exactly f(query, lane) at the matching position; index_point(i) returns axis[i] and data[i] bit-for-bit for every i; is_in_range is the \
         closed-range test; an injected error comes back with the same kind and message. Non-trivial: query rank >= 2, an injected failure, or an \
         invalid input."
            .into()
    }
    fn assumptions(&self) -> Vec<String> {
        vec!["'strictly increasing' as defined by C12's reference classification".into()]
    }
    fn required_classes(&self, _t: Tier) -> Vec<&'static str> {
        vec!["dim:1", "dim:2", "min:0", "min:4", "input:valid", "input:invalid", "inject:build", "inject:interp", "ep:scalar", "ep:interp", "ep:interp_into", "ep:array", "ep:array_into", "qdim:Ix2", "qdim:IxDyn", "query:nan-or-out-of-range", "query:nonstandard-layout", "trailing:zero-length", "query:repeated-adjacent"]
    }
}

fn bad_axis<T: Flt>(src: &mut Src, n: usize) -> (Vec<T>, &'static str) {
    // half of the invalid axes look like the default index axis 0, 1, .., n-1 at both ends
    let index_like = src.bool();
    let mut v: Vec<T> = (0..n).map(|i| if index_like { T::of(i as f64) } else { T::of(i as f64 * 0.5 - 1.0) }).collect();
    if index_like && n >= 4 {
        let p = 1 + src.below(n as u64 - 2) as usize;
        return match src.below(3) {
            0 => {
                v[p] = v[p - 1];
                (v, "axis-tie/index-like")
            }
            1 => {
                let p = p.clamp(2, n - 2);
                v.swap(p, p - 1);
                (v, "axis-swap/index-like")
            }
            _ => {
                v[p] = T::nan();
                (v, "axis-nan/index-like")
            }
        };
    }
    match src.below(4) {
        0 => {
            v.push(T::of(n as f64));
            (v, "axis-too-long")
        }
        1 if n >= 1 => {
            v.pop();
            (v, "axis-too-short")
        }
        2 if n >= 2 => {
            let p = 1 + src.below(n as u64 - 1) as usize;
            v[p] = v[p - 1];
            (v, "axis-tie")
        }
        _ if n >= 1 => {
            let p = src.below(n as u64) as usize;
            v[p] = T::nan();
            (v, "axis-nan")
        }
        _ => {
            v.push(T::one());
            (v, "axis-too-long")
        }
    }
}

fn run<T: Flt>(src: &mut Src, obs: &mut Obs, two_d: bool) -> Result<(), Fail> {
    obs.class(if two_d { "dim:2" } else { "dim:1" });
    let min = src.usize_in(0, 4);
    obs.class(format!("min:{min}"));
    let k = if two_d { 2 } else { 1 };
    let dynamic = src.chance(1, 3);
    let rank = src.usize_in(k, 4);
    let dd = if dynamic { DDim::Dyn } else { DDim::of_rank(rank) };
    let invalid_len = src.chance(1, 8) && min > 0;
    let nx = if invalid_len { src.usize_in(0, min - 1) } else { src.usize_in(min.max(2), min.max(2) + 4) };
    let ny = src.usize_in(min.max(2), min.max(2) + 3);
    let mut shape = vec![nx];
    if two_d {
        shape.push(ny);
    }
    for _ in k..rank {
        // zero-length trailing axes occur too: the strategy must still be called once per query
        shape.push(if src.chance(1, 12) { 0 } else { src.usize_in(1, 3) });
    }
    if shape[k..].contains(&0) {
        obs.class("trailing:zero-length");
    }
    // rarely many lanes
    if rank > k && !shape[k..].contains(&0) && src.chance(1, 40) {
        shape[k] = src.usize_in(32, 70);
        obs.class("lanes:32+");
    }
    let trailing: Vec<usize> = shape[k..].to_vec();
    let lanes = product(&trailing);
    let total = product(&shape);
    let data: Vec<T> = (0..total).map(|_| T::of(value::<T>(src, ValClass::Full, 0))).collect();
    // axes
    let mut why_invalid: Option<&'static str> = if invalid_len { Some("too-few-points") } else { None };
    let mk_good = |src: &mut Src, n: usize| -> Vec<T> { axis::<T>(src, n.max(1), AxisClass::Random, None).into_iter().take(n).map(T::of).collect() };
    let xv: Option<Vec<T>> = if src.chance(1, 4) {
        None
    } else if src.chance(1, 6) {
        let (v, w) = bad_axis::<T>(src, nx);
        why_invalid.get_or_insert(w);
        Some(v)
    } else {
        Some(mk_good(src, nx))
    };
    let yv: Option<Vec<T>> = if !two_d || src.chance(1, 4) {
        None
    } else if src.chance(1, 6) {
        let (v, w) = bad_axis::<T>(src, ny);
        why_invalid.get_or_insert(w);
        Some(v)
    } else {
        Some(mk_good(src, ny))
    };
    // x and y as two views of one allocation (same first element, same length, other stride); y valid or not
    let mut yv = yv;
    let mut aliased = None;
    if let Some(x) = &xv {
        if two_d && nx == ny && x.len() == nx && nx >= 2 && src.chance(1, 5) {
            let ok = src.bool();
            let y = related_axis::<T>(src, x, ok);
            aliased = alias_axes::<T>(x, &y);
            if aliased.is_some() {
                obs.class("axes:aliasing-views");
            }
            if classify(&y) != Mono::Rising(true) {
                why_invalid.get_or_insert("y-order(aliasing)");
            }
            yv = Some(y);
        }
    }
    let x_eff: Vec<T> = xv.clone().unwrap_or_else(|| (0..nx).map(|i| T::of(i as f64)).collect());
    let y_eff: Vec<T> = yv.clone().unwrap_or_else(|| (0..ny).map(|i| T::of(i as f64)).collect());
    // validity by the reference definitions (covers default axes of length < 2 as well)
    let valid = nx >= min
        && (!two_d || ny >= min)
        && x_eff.len() == nx
        && classify(&x_eff) == Mono::Rising(true)
        && (!two_d || (y_eff.len() == ny && classify(&y_eff) == Mono::Rising(true)));
    if !valid && why_invalid.is_none() {
        why_invalid = Some("default-axis-too-short");
    }
    obs.class(if valid { "input:valid" } else { "input:invalid" });
    // injections
    let inject_build = if src.chance(1, 8) { Some((src.pick(&BKind::ALL), format!("marker-build-{}", src.below(1000)))) } else { None };
    let ep = src.below(5) as usize;
    let ep = if ep == 0 && !(dd == DDim::S1 && !two_d || dd == DDim::S2 && two_d) { 1 } else { ep };
    let epn = ["scalar", "interp", "interp_into", "array", "array_into"][ep];
    obs.class(format!("ep:{epn}"));
    let qd = if ep <= 2 { QDim::S0 } else { src.pick(&[QDim::S0, QDim::S1, QDim::S1, QDim::S2, QDim::S3, QDim::Dyn]) };
    let qrank = qd.static_rank().unwrap_or_else(|| src.usize_in(0, 3));
    let qsh: Vec<usize> = if ep <= 2 { vec![] } else { qshape(src, qrank) };
    let qlen = product(&qsh);
    if ep > 2 {
        obs.class(format!("qdim:{}", qd.name()));
    }
    let inject_at = if qlen > 0 && src.chance(1, 5) { Some((src.below(qlen as u64) as usize, format!("marker-interp-{}", src.below(1000)))) } else { None };
    if inject_build.is_some() {
        obs.class("inject:build");
    }
    if inject_at.is_some() {
        obs.class("inject:interp");
    }
    let log: Log = Arc::new(Mutex::new(Vec::new()));
    let darr = ArrayD::from_shape_vec(IxDyn(&shape), data.clone()).unwrap();
    let xo = xv.as_ref().map(|v| Array1::from_vec(v.clone()));
    let yo = yv.as_ref().map(|v| Array1::from_vec(v.clone()));
    let ctx = format!("T={} {}-D custom strategy min {min}, data {}{shape:?}, x {:?}, y {:?}", T::NAME, k, dd.name(), xv.as_ref().map(|v| v.len()), yv.as_ref().map(|v| v.len()));

    enum Built<T: Flt> {
        One(Box<dyn I1<T>>),
        Two(Box<dyn I2<T>>),
    }
    let built = catch(|| {
        if two_d {
            match aliased {
                Some((xa, ya)) => build2_rec_any::<T, ndarray::OwnedArcRepr<T>>(Some(xa), Some(ya), darr, dd, min, log.clone(), inject_build.clone(), inject_at.clone()).map(|r| r.map(Built::Two)),
                None => build2_rec::<T>(xo, yo, darr, dd, min, log.clone(), inject_build.clone(), inject_at.clone()).map(|r| r.map(Built::Two)),
            }
        } else {
            build1_rec::<T>(xo, darr, dd, min, log.clone(), inject_build.clone(), inject_at.clone()).map(|r| r.map(Built::One))
        }
    });
    let built = match built {
        Err(p) => fail!("panic/build", "build panicked: {p}; {ctx}"),
        Ok(None) => return Ok(()),
        Ok(Some(b)) => b,
    };
    let calls: Vec<Call> = log.lock().unwrap().clone();
    let build_calls: Vec<&Call> = calls.iter().filter(|c| matches!(c, Call::Build { .. })).collect();
    obs.asserts += 1;
    if !valid {
        if !build_calls.is_empty() {
            fail!(format!("strategy-build-on-invalid/{}", why_invalid.unwrap_or("?")), "the custom strategy builder was invoked although the input is invalid ({}); {ctx}", why_invalid.unwrap_or("?"));
        }
        if built.is_ok() {
            fail!("invalid-accepted", "an interpolator was built from invalid input ({}); {ctx}", why_invalid.unwrap_or("?"));
        }
        obs.nontrivial = true;
        obs.key(&ctx);
        obs.describe(|| json!({"case": ctx, "invalid": why_invalid}));
        return Ok(());
    }
    // valid input: build must have been called exactly once with the caller's axes and shape
    if build_calls.len() != 1 {
        fail!("strategy-build-count", "strategy build called {} times for valid input; {ctx}", build_calls.len());
    }
    if let Call::Build { x, y, data_shape } = build_calls[0] {
        let xk: Vec<u64> = x_eff.iter().map(|v| v.key()).collect();
        let yk: Vec<u64> = if two_d { y_eff.iter().map(|v| v.key()).collect() } else { vec![] };
        obs.asserts += 1;
        if *x != xk || *y != yk || *data_shape != shape {
            fail!("strategy-build-inputs", "strategy build saw axes / data shape that differ from the caller's: shape {data_shape:?} vs {shape:?}, x equal: {}, y equal: {}; {ctx}", *x == xk, *y == yk);
        }
    }
    let interp = match (built, &inject_build) {
        (Err(e), Some((kind, msg))) => {
            obs.asserts += 1;
            if BKind::of(&e) != *kind || e.to_string() != *msg {
                fail!("build-error-altered", "strategy build returned {kind:?}({msg}) but the caller received {e:?}; {ctx}");
            }
            obs.nontrivial = true;
            obs.key(&ctx);
            return Ok(());
        }
        (Err(e), None) => fail!("valid-rejected", "valid input rejected: {e:?}; {ctx}"),
        (Ok(_), Some(_)) => fail!("build-error-swallowed", "strategy build returned an error but build() succeeded; {ctx}"),
        (Ok(i), None) => i,
    };
    // accessors
    match &interp {
        Built::One(i) => {
            for r in 0..nx {
                let (xx, row) = i.t_index_point(r);
                obs.asserts += 1;
                let want: Vec<u64> = data[r * lanes..(r + 1) * lanes].iter().map(|v| v.key()).collect();
                if xx.key() != x_eff[r].key() || row.shape != trailing || row.v.iter().map(|v| v.key()).ne(want.iter().cloned()) {
                    fail!("index_point", "index_point({r}) returned x={:e} / data {:?}, expected x={:e} / the data row; {ctx}", xx.f(), row.shape, x_eff[r].f());
                }
            }
            let xf: Vec<f64> = x_eff.iter().map(|v| v.f()).collect();
            for cls in RQ::GOOD.iter().chain(RQ::BAD.iter()) {
                let q = make_q::<T>(src, &xf, *cls);
                obs.asserts += 1;
                if i.t_in_range(q) != in_closed::<T>(&xf, q) {
                    fail!(format!("is_in_range/{}", cls.name()), "is_in_range({:e}) = {}, closed range is [{:e},{:e}]; {ctx}", q.f(), i.t_in_range(q), xf[0], xf[nx - 1]);
                }
            }
        }
        Built::Two(i) => {
            for r in 0..nx {
                for cc in 0..ny {
                    let (xx, yy, cell) = i.t_index_point(r, cc);
                    obs.asserts += 1;
                    let o = (r * ny + cc) * lanes;
                    if xx.key() != x_eff[r].key() || yy.key() != y_eff[cc].key() || cell.shape != trailing || cell.v.iter().map(|v| v.key()).ne(data[o..o + lanes].iter().map(|v| v.key())) {
                        fail!("index_point/2d", "index_point({r},{cc}) returned ({:e},{:e}) / shape {:?}; expected ({:e},{:e}) / the data cell; {ctx}", xx.f(), yy.f(), cell.shape, x_eff[r].f(), y_eff[cc].f());
                    }
                }
            }
            let (xf, yf): (Vec<f64>, Vec<f64>) = (x_eff.iter().map(|v| v.f()).collect(), y_eff.iter().map(|v| v.f()).collect());
            for cls in RQ::GOOD.iter().chain(RQ::BAD.iter()) {
                let (qx, qy) = (make_q::<T>(src, &xf, *cls), make_q::<T>(src, &yf, *cls));
                obs.asserts += 2;
                if i.t_in_x_range(qx) != in_closed::<T>(&xf, qx) || i.t_in_y_range(qy) != in_closed::<T>(&yf, qy) {
                    fail!(format!("is_in_range/2d/{}", cls.name()), "is_in_x_range({:e}) / is_in_y_range({:e}) disagree with the closed ranges; {ctx}", qx.f(), qy.f());
                }
            }
        }
    }
    // queries: any value, including out of range / non finite (the strategy decides)
    let nqv = qlen.max(1);
    let xf: Vec<f64> = x_eff.iter().map(|v| v.f()).collect();
    let yf: Vec<f64> = y_eff.iter().map(|v| v.f()).collect();
    let mut any_special = false;
    let mut gen_q = |src: &mut Src, ax: &[f64]| -> T {
        if src.chance(1, 4) {
            any_special = true;
            let c = src.pick(&RQ::BAD);
            make_q::<T>(src, ax, c)
        } else {
            let c = src.pick(&RQ::GOOD);
            make_q::<T>(src, ax, c)
        }
    };
    let mut qx: Vec<T> = (0..nqv).map(|_| gen_q(src, &xf)).collect();
    let mut qy: Vec<T> = (0..nqv).map(|_| if two_d { gen_q(src, &yf) } else { T::zero() }).collect();
    // runs of identical adjacent points (a trajectory standing still, clamped coordinates)
    if nqv >= 2 && src.chance(1, 3) {
        obs.class("query:repeated-adjacent");
        for j in 1..nqv {
            if src.chance(1, 3) {
                qx[j] = qx[j - 1];
                qy[j] = qy[j - 1];
            }
        }
    }
    if any_special {
        obs.class("query:nan-or-out-of-range");
    }
    let qa = ArrayD::from_shape_vec(IxDyn(&qsh), qx[..qlen.max(if ep <= 2 { 1 } else { 0 })].to_vec()).unwrap_or_else(|_| ArrayD::from_elem(IxDyn(&[]), qx[0]));
    let ya = ArrayD::from_shape_vec(IxDyn(&qsh), qy[..qlen.max(if ep <= 2 { 1 } else { 0 })].to_vec()).unwrap_or_else(|_| ArrayD::from_elem(IxDyn(&[]), qy[0]));
    // the query arrays may have any memory layout (independently for xs and ys)
    let (qa, ya) = if ep >= 3 && src.chance(1, 2) {
        obs.class("query:nonstandard-layout");
        let (l1, l2) = (crate::layout::Layout::pick(src), crate::layout::Layout::pick(src));
        (crate::layout::with_layout(&qa, l1, T::of(-5.0), src), crate::layout::with_layout(&ya, l2, T::of(-6.0), src))
    } else {
        (qa, ya)
    };
    let mut want_shape = qsh.clone();
    want_shape.extend_from_slice(&trailing);
    let poison = T::of(-1.25e-3);
    log.lock().unwrap().clear();
    let res: Result<R<Arr<T>>, String> = catch(|| match &interp {
        Built::One(i) => match ep {
            0 => i.t_scalar(qx[0]).unwrap().map(|v| Arr { shape: vec![], v: vec![v] }),
            1 => i.t_interp(qx[0]),
            2 => {
                let mut b = ArrayD::from_elem(IxDyn(&trailing), poison);
                i.t_interp_into(qx[0], b.view_mut()).unwrap().map(|_| to_arr(&b))
            }
            3 => i.t_array(qa.view(), qd).unwrap(),
            _ => {
                let mut b = ArrayD::from_elem(IxDyn(&want_shape), poison);
                i.t_array_into(qa.view(), qd, b.view_mut()).unwrap().map(|_| to_arr(&b))
            }
        },
        Built::Two(i) => match ep {
            0 => i.t_scalar(qx[0], qy[0]).unwrap().map(|v| Arr { shape: vec![], v: vec![v] }),
            1 => i.t_interp(qx[0], qy[0]),
            2 => {
                let mut b = ArrayD::from_elem(IxDyn(&trailing), poison);
                i.t_interp_into(qx[0], qy[0], b.view_mut()).unwrap().map(|_| to_arr(&b))
            }
            3 => i.t_array(qa.view(), ya.view(), qd).unwrap(),
            _ => {
                let mut b = ArrayD::from_elem(IxDyn(&want_shape), poison);
                i.t_array_into(qa.view(), ya.view(), qd, b.view_mut()).unwrap().map(|_| to_arr(&b))
            }
        },
    });
    let res = match res {
        Ok(r) => r,
        Err(p) => fail!(format!("panic/{epn}"), "{epn} with a custom strategy panicked: {p}; {ctx}; query {}{qsh:?}", qd.name()),
    };
    let calls: Vec<Call> = log.lock().unwrap().clone();
    let ncalls_expected = if ep <= 2 { 1 } else { qlen };
    // which call fails?
    let fail_idx = inject_at.as_ref().map(|(k, _)| *k).filter(|k| *k < ncalls_expected);
    // every recorded call: query bits in order, target shape
    let upto = fail_idx.map(|k| k + 1).unwrap_or(ncalls_expected);
    obs.asserts += 1;
    if calls.len() != upto {
        fail!("strategy-call-count", "{epn}: the strategy's interp_into was called {} times, expected {upto} (queries {ncalls_expected}, injected failure at {fail_idx:?}); {ctx}", calls.len());
    }
    for (j, cl) in calls.iter().enumerate() {
        if let Call::Interp { q, q2, target_shape } = cl {
            obs.asserts += 1;
            if *q != qx[j].key() || (two_d && *q2 != qy[j].key()) {
                fail!("query-altered", "{epn}: call {j} received query bits {q:#x}/{q2:#x}, the caller passed {:#x}/{:#x} ({:e},{:e}); {ctx}", qx[j].key(), qy[j].key(), qx[j].f(), qy[j].f());
            }
            if *target_shape != trailing {
                fail!("target-shape", "{epn}: call {j} received a target of shape {target_shape:?}, expected {trailing:?}; {ctx}");
            }
        }
    }
    match (res, fail_idx) {
        (Err(e), Some(_)) => {
            let (_, m) = inject_at.as_ref().unwrap();
            obs.asserts += 1;
            if e != *m {
                fail!("interp-error-altered", "{epn}: strategy returned OutOfBounds({m}) but the caller received '{e}'; {ctx}");
            }
        }
        (Ok(_), Some(k)) => fail!("interp-error-swallowed", "{epn}: the strategy failed at call {k} but the caller received Ok; {ctx}"),
        (Err(e), None) => fail!("spurious-error", "{epn}: the strategy returned Ok for every call but the caller received Err({e}); {ctx}"),
        (Ok(a), None) => {
            let ws = if ep <= 2 { trailing.clone() } else { want_shape.clone() };
            obs.asserts += 1;
            if a.shape != ws && !(ep == 0) {
                fail!("result-shape", "{epn}: result shape {:?}, expected {ws:?}; {ctx}", a.shape);
            }
            for j in 0..ncalls_expected {
                for l in 0..lanes {
                    let want = rec_value::<T>(qx[j], if two_d { qy[j] } else { T::zero() }, l);
                    if a.v[j * lanes + l].key() != want.key() {
                        fail!("result-misplaced", "{epn}: result element (query {j}, lane {l}) is {:e}, the strategy wrote {:e} there; {ctx}; query {}{qsh:?}", a.v[j * lanes + l].f(), want.f(), qd.name());
                    }
                }
            }
        }
    }
    obs.nontrivial = qsh.len() >= 2 || inject_at.is_some();
    if obs.nontrivial {
        obs.key(&ctx);
        obs.key(&(epn, qsh.clone(), qd));
    }
    obs.describe(|| json!({"case": ctx, "entry": epn, "query_dim": qd.name(), "query_shape": qsh, "inject_at": inject_at.as_ref().map(|x| x.0)}));
    Ok(())
}
