//! C13 - results do not depend on the memory layout or ownership of any array argument.

use super::c04::Grid;
use super::*;
use crate::adapt::*;
use crate::common::*;
use crate::fail;
use crate::gen::*;
use crate::gen1d::*;
use crate::layout::*;
use ndarray::{Array1, ArrayD, IxDyn};

pub struct C13;

impl Check for C13 {
    fn id(&self) -> &'static str {
        "C13"
    }
    fn entropy_len(&self) -> usize {
        800
    }
    fn cases(&self, tier: Tier) -> u64 {
        tier.pick(400_000, 10_000_000)
    }
    fn run_case(&self, src: &mut Src, obs: &mut Obs) -> Result<(), Fail> {
        if src.chance(1, 12) {
            return if src.chance(1, 5) { many_lanes::<f32>(src, obs) } else { many_lanes::<f64>(src, obs) };
        }
        let two_d = src.chance(1, 3);
        match (two_d, src.chance(1, 5)) {
            (false, false) => run::<f64>(src, obs, false),
            (false, true) => run::<f32>(src, obs, false),
            (true, false) => run::<f64>(src, obs, true),
            (true, true) => run::<f32>(src, obs, true),
        }
    }
    fn regressions(&self) -> Vec<(&'static str, fn() -> Result<(), Fail>)> {
        vec![("d3-nonstandard-buffer", super::regress::d3_nonstandard_buffer)]
    }
    fn rule(&self) -> String {
        "for each of data / x / y / query / output buffer independently a memory layout from {standard C, Fortran, every-k-th slice of a larger \
         array with offset, reversed (negative) strides, axes permuted in storage} and a storage kind (owned or view) for data, axes and query; \
         all five entry points (interp_scalar, interp, interp_into, interp_array, interp_array_into), query dim types Ix0..Ix3 and IxDyn, data \
         rank 1..4 (static and dynamic), every strategy (Linear, CubicSpline with all boundary selections, Bilinear). Oracle: the same call with \
         the same storage kinds but every array in standard layout: results bit-identical; a panic or Err that the standard-layout run does not \
         show is a violation (in particular: a correctly shaped buffer is accepted whatever its strides). Owned-vs-view comparison (different \
         monomorphisations): bit-identical for Linear / Bilinear and for splines on axes whose interval lengths square exactly (index, unit, \
         dyadic); reported only otherwise (DESIGN 3.5). Non-trivial: at least one argument not in standard layout."
            .into()
    }
    fn assumptions(&self) -> Vec<String> {
        vec!["bitwise comparison is made between interpolators of the same concrete type; across owned/view types only where no type-dependent constant folding of pow() can differ (DESIGN 3.5)".into()]
    }
    fn required_classes(&self, _t: Tier) -> Vec<&'static str> {
        vec!["dim:1", "dim:2", "data:F", "data:strided", "data:reversed", "data:permuted", "x:strided", "x:reversed", "query:F", "query:strided", "query:reversed", "query:permuted",
            "buffer:F", "buffer:strided", "buffer:reversed", "buffer:permuted", "buffer-nonstd&general-path", "ep:interp_into", "ep:array_into", "ep:array", "store:data-view", "store:data-owned", "cross:owned-vs-view"]
    }
}

type Out<T> = Result<Arr<T>, String>;

fn bshape_buf(_b: &[usize], ep: usize, qshape: &[usize], trailing: &[usize]) -> Vec<usize> {
    if ep == 2 {
        trailing.to_vec()
    } else {
        let mut w = qshape.to_vec();
        w.extend_from_slice(trailing);
        w
    }
}

/// array of the logical shape `shape` (rank >= 3) whose rows along axis 0 are stored contiguously in Fortran order
/// (`rows_f`), or in plain C order
fn rows_layout<T: Clone>(logical: &ArrayD<T>, rows_f: bool, junk: T) -> ArrayD<T> {
    if !rows_f {
        return logical.clone();
    }
    let sh = logical.shape().to_vec();
    let r = sh.len();
    // storage shape: axis 0 first, the trailing axes reversed; the view permutes them back
    let mut st = vec![sh[0]];
    st.extend(sh[1..].iter().rev());
    let perm: Vec<usize> = std::iter::once(0).chain((1..r).rev()).collect();
    let mut a = ArrayD::from_elem(IxDyn(&st), junk).permuted_axes(IxDyn(&perm));
    a.assign(logical);
    a
}

/// many lanes (32..96 per row), data rows and buffer rows in equal or different contiguous non-C layouts
fn many_lanes<T: Flt>(src: &mut Src, obs: &mut Obs) -> Result<(), Fail> {
    obs.class("dim:1");
    obs.class("lanes:many");
    obs.class(format!("T:{}", T::NAME));
    let junk = T::of(-123456.0);
    let poison = T::of(-7.5e22);
    let spline = src.bool();
    let n = src.usize_in(if spline { 3 } else { 2 }, 6);
    let trailing: Vec<usize> = if src.bool() { vec![src.usize_in(4, 8), src.usize_in(8, 12)] } else { vec![src.usize_in(2, 4), src.usize_in(4, 6), src.usize_in(4, 5)] };
    let lanes = product(&trailing);
    let class = src.pick(&[AxisClass::Index, AxisClass::Uniform, AxisClass::Random, AxisClass::Dyadic]);
    let x = axis::<T>(src, n, class, Some(6));
    let strat: Strat1<T> = if spline {
        Strat1::Spline { extrapolate: false, bc: src.pick(&[Bc::NotAKnot, Bc::Natural, Bc::Clamped]) }
    } else {
        Strat1::Linear { extrapolate: false }
    };
    obs.class(if spline { "strat:Spline" } else { "strat:Linear" });
    let dd = if src.chance(1, 4) { DDim::Dyn } else if trailing.len() == 2 { DDim::S3 } else { DDim::S4 };
    let mut shape = vec![n];
    shape.extend_from_slice(&trailing);
    let (data_f, buf_f) = match src.below(3) {
        0 => (true, true),
        1 => (true, false),
        _ => (false, true),
    };
    obs.class(format!("lanes:many/data-rows-{}/buffer-rows-{}", if data_f { "F" } else { "C" }, if buf_f { "F" } else { "C" }));
    let x_c = arr_1::<T>(&x);
    let explicit_x = class != AxisClass::Index;
    let ep = src.pick(&[1usize, 2, 2, 3, 4, 4]);
    let qlen = if ep <= 2 { 1 } else { src.usize_in(1, 3) };
    let qshape: Vec<usize> = if ep <= 2 { vec![] } else { vec![qlen] };
    let qd = if ep <= 2 { QDim::S0 } else if src.bool() { QDim::S1 } else { QDim::Dyn };
    let qv: Vec<T> = (0..qlen).map(|_| T::of(query_in_range::<T>(src, &x).0)).collect();
    let q_c = ArrayD::from_shape_vec(IxDyn(&qshape), qv).unwrap();
    let (data_view, q_owned) = (src.bool(), src.bool());
    // the values last: they may use up the entropy
    let vc = val_class(src);
    let data = values::<T>(src, n * lanes, vc, 0);
    let data_c = arr_d::<T>(&shape, &data);
    let data_l = rows_layout(&data_c, data_f, junk);
    let mut want = qshape.clone();
    want.extend_from_slice(&trailing);
    let bshape = if ep == 2 { trailing.clone() } else { want.clone() };
    let mut buf_c = ArrayD::from_elem(IxDyn(&bshape), poison);
    let mut buf_l = if !buf_f {
        buf_c.clone()
    } else if ep == 2 {
        // a single row in Fortran order
        let st: Vec<usize> = bshape.iter().rev().cloned().collect();
        ArrayD::from_elem(IxDyn(&st), poison).reversed_axes()
    } else {
        rows_layout(&buf_c, true, poison)
    };
    let base = with_interp1::<T, Out<T>>(explicit_x.then_some(&x_c), false, &data_c, data_view, dd, &strat, &mut |i| call1(i, ep, &q_c, q_owned, qd, &mut buf_c));
    let var = catch(|| with_interp1::<T, Out<T>>(explicit_x.then_some(&x_c), false, &data_l, data_view, dd, &strat, &mut |i| call1(i, ep, &q_c, q_owned, qd, &mut buf_l)));
    let ctx = format!("T={} {:?} data {}{:?} strides {:?} ({}), query {}{:?}, buffer {:?} strides {:?}, entry {}", T::NAME, strat, dd.name(), shape, data_l.strides(), if data_view { "view" } else { "owned" }, qd.name(), qshape, bshape,
        buf_l.strides(), ["scalar", "interp", "interp_into", "array", "array_into"][ep]);
    let base = match base {
        Some(Ok(Ok(b))) => b,
        other => fail!("oracle-bug", "standard-layout run failed: {:?}; {ctx}", other.map(|r| r.map(|o| o.map(|a| a.shape)))),
    };
    let var = match var {
        Ok(Some(Ok(v))) => v,
        Ok(Some(Err(e))) => fail!("layout-build-rejected/data:rows-F", "build() rejected data whose rows are stored in Fortran order: {e}; {ctx}"),
        Ok(None) => fail!("oracle-bug", "not expressible"),
        Err(p) => fail!("layout-build-panic/data:rows-F", "build() panicked: {p}; {ctx}"),
    };
    obs.asserts += 1;
    let base = Ok(base);
    if !same(&base, &var) {
        let (bv, vv) = (base.as_ref().unwrap(), var.as_ref());
        let first = vv.ok().and_then(|v| bv.v.iter().zip(v.v.iter()).position(|(a, b)| a.key() != b.key()));
        fail!(format!("layout-dependence/many-lanes/{}", if var.is_err() { "failure" } else { "values" }), "with {lanes} lanes per row the call {} although only memory layouts differ from the standard-layout run; {ctx}; first differing element {:?}",
            if var.is_err() { format!("fails with {:?}", var.as_ref().err()) } else { "returns different values".into() }, first);
    }
    obs.nontrivial = true;
    obs.key(&ctx);
    obs.key(&data.iter().map(|v| v.to_bits()).collect::<Vec<_>>());
    obs.describe(|| json!({"case": ctx}));
    Ok(())
}

/// run one entry point; buffers are supplied by the caller
fn call1<T: Flt>(i: &dyn I1<T>, ep: usize, q: &ArrayD<T>, q_owned: bool, qd: QDim, buf: &mut ArrayD<T>) -> Out<T> {
    let r = catch(|| -> Result<Arr<T>, String> {
        match ep {
            0 => i.t_scalar(q.iter().next().cloned().unwrap()).unwrap().map(|v| Arr { shape: vec![], v: vec![v] }),
            1 => i.t_interp(q.iter().next().cloned().unwrap()),
            2 => i.t_interp_into(q.iter().next().cloned().unwrap(), buf.view_mut()).ok_or("buffer rank")?.map(|_| to_arr(buf)),
            3 => {
                if q_owned {
                    i.t_array_owned(q.clone(), qd).ok_or("query rank")?
                } else {
                    i.t_array(q.view(), qd).ok_or("query rank")?
                }
            }
            _ => i.t_array_into(q.view(), qd, buf.view_mut()).ok_or("rank")?.map(|_| to_arr(buf)),
        }
    });
    match r {
        Ok(x) => x.map_err(|e| format!("Err({e})")),
        Err(p) => Err(format!("panic: {p}")),
    }
}

fn call2<T: Flt>(i: &dyn I2<T>, ep: usize, qx: &ArrayD<T>, qy: &ArrayD<T>, q_owned: bool, qd: QDim, buf: &mut ArrayD<T>) -> Out<T> {
    let r = catch(|| -> Result<Arr<T>, String> {
        let (x0, y0) = (qx.iter().next().cloned(), qy.iter().next().cloned());
        match ep {
            0 => i.t_scalar(x0.unwrap(), y0.unwrap()).unwrap().map(|v| Arr { shape: vec![], v: vec![v] }),
            1 => i.t_interp(x0.unwrap(), y0.unwrap()),
            2 => i.t_interp_into(x0.unwrap(), y0.unwrap(), buf.view_mut()).ok_or("buffer rank")?.map(|_| to_arr(buf)),
            3 => {
                if q_owned {
                    i.t_array_owned(qx.clone(), qy.clone(), qd).ok_or("query rank")?
                } else {
                    i.t_array(qx.view(), qy.view(), qd).ok_or("query rank")?
                }
            }
            _ => i.t_array_into(qx.view(), qy.view(), qd, buf.view_mut()).ok_or("rank")?.map(|_| to_arr(buf)),
        }
    });
    match r {
        Ok(x) => x.map_err(|e| format!("Err({e})")),
        Err(p) => Err(format!("panic: {p}")),
    }
}

fn same<T: Flt>(a: &Out<T>, b: &Out<T>) -> bool {
    match (a, b) {
        (Ok(x), Ok(y)) => x.shape == y.shape && x.v.iter().map(|v| v.key()).eq(y.v.iter().map(|v| v.key())),
        (Err(_), Err(_)) => true,
        _ => false,
    }
}

fn run<T: Flt>(src: &mut Src, obs: &mut Obs, two_d: bool) -> Result<(), Fail> {
    obs.class(if two_d { "dim:2" } else { "dim:1" });
    obs.class(format!("T:{}", T::NAME));
    let junk = T::of(-123456.0);
    // layouts and storage kinds
    let pick = |src: &mut Src| if src.chance(1, 3) { Layout::C } else { Layout::pick_nonstandard(src) };
    let (ld, lx, ly, lq, lb) = (pick(src), pick(src), pick(src), pick(src), pick(src));
    let (data_view, axes_view, q_owned) = (src.bool(), src.bool(), src.bool());
    let ep = src.below(5) as usize;
    let qd = src.pick(&[QDim::S0, QDim::S1, QDim::S1, QDim::S2, QDim::S3, QDim::Dyn]);
    let qrank = qd.static_rank().unwrap_or_else(|| src.usize_in(0, 3));
    let poison = T::of(-7.5e22);

    if !two_d {
        let o = Opts1 { max_lanes: 8, max_n_linear: 9, spline: crate::splinegen::SplineOpts { max_n: 9, ..Default::default() }, ..Opts1::default() };
        let c = Case1::gen::<T>(src, &o);
        c.classes(obs);
        let ep = if ep == 0 && c.dd != DDim::S1 { 1 } else { ep };
        let qshape: Vec<usize> = if ep <= 2 { vec![] } else { (0..qrank).map(|_| src.usize_in(1, 3)).collect() };
        let qd = if ep <= 2 { QDim::S0 } else { qd };
        let qlen = product(&qshape);
        let qv: Vec<T> = (0..qlen).map(|_| T::of(query_in_range::<T>(src, &c.x).0)).collect();
        let q_c = ArrayD::from_shape_vec(IxDyn(&qshape), qv).unwrap();
        let q_l = with_layout(&q_c, lq, junk, src);
        let mut want = qshape.clone();
        want.extend_from_slice(&c.trailing);
        let bshape = if ep == 2 { c.trailing.clone() } else { want.clone() };
        let data_c = arr_d::<T>(&c.shape(), &c.data);
        let data_l = with_layout(&data_c, ld, junk, src);
        let x_c = arr_1::<T>(&c.x);
        let x_l: Array1<T> = with_layout(&x_c.clone().into_dyn(), lx, junk, src).into_dimensionality().unwrap();
        let explicit_x = c.axis_class != AxisClass::Index;
        let strat = c.strat1::<T>(false);
        let mut buf_c = blank(&bshape, Layout::C, poison, src);
        let mut buf_l = blank(&bshape, lb, poison, src);
        let mut buf_x = blank(&bshape, Layout::C, poison, src);
        label(obs, ld, if explicit_x { Some(lx) } else { None }, None, lq, lb, ep, qd, data_view, &q_l, &buf_l);
        let base = with_interp1::<T, Out<T>>(explicit_x.then_some(&x_c), axes_view, &data_c, data_view, c.dd, &strat, &mut |i| call1(i, ep, &q_c, q_owned, qd, &mut buf_c));
        let var = catch(|| with_interp1::<T, Out<T>>(explicit_x.then_some(&x_l), axes_view, &data_l, data_view, c.dd, &strat, &mut |i| call1(i, ep, &q_l, q_owned, qd, &mut buf_l)));
        let base = match base {
            Some(Ok(b)) => b,
            Some(Err(e)) => fail!("build-failed", "standard-layout build failed: {e}"),
            None => fail!("oracle-bug", "not expressible"),
        };
        let var = match var {
            Ok(Some(Ok(v))) => v,
            Ok(Some(Err(e))) => fail!(format!("layout-build-rejected/data:{}", ld.name()), "build() rejected a {} data / {} axis layout that is accepted in standard layout: {e}", ld.name(), lx.name()),
            Ok(None) => fail!("oracle-bug", "not expressible"),
            Err(p) => fail!(format!("layout-build-panic/data:{}", ld.name()), "build() panicked for data layout {} / axis layout {}: {p}", ld.name(), lx.name()),
        };
        let ctx = format!("T={} {} data {}{:?} ({}, {}), axis {} ({}), query {}{:?} ({}, {}), buffer {:?} ({}), entry {}", T::NAME, c.strat.name(), c.dd.name(), c.shape(), ld.name(),
            if data_view { "view" } else { "owned" }, if explicit_x { lx.name() } else { "default" }, if axes_view { "view" } else { "owned" }, qd.name(), qshape, lq.name(), if q_owned { "owned" } else { "view" }, bshape, lb.name(), ["scalar", "interp", "interp_into", "array", "array_into"][ep]);
        obs.asserts += 1;
        if base.is_err() {
            fail!("oracle-bug", "standard-layout run failed: {:?}; {ctx}", base.err());
        }
        if !same(&base, &var) {
            let what = match &var {
                Err(e) => format!("fails with {e}"),
                Ok(_) => "returns different values".into(),
            };
            let culprit = if var.is_err() && ep >= 2 && ep != 3 && lb != Layout::C { format!("buffer:{}", lb.name()) } else if ld != Layout::C { format!("data:{}", ld.name()) } else if lq != Layout::C { format!("query:{}", lq.name()) } else { format!("axis:{}", lx.name()) };
            fail!(format!("layout-dependence/{}/{culprit}", if var.is_err() { "failure" } else { "values" }), "the call {what} although only memory layouts differ from the standard-layout run; {ctx}; standard: {:?}, with layouts: {:?}",
                base.as_ref().map(|a| a.v.iter().take(4).map(|v| v.f()).collect::<Vec<_>>()), var.as_ref().map(|a| a.v.iter().take(4).map(|v| v.f()).collect::<Vec<_>>()));
        }
        // (a) aliasing: the axis is every second element of an allocation, the rank-1 query is the first n elements
        // of the very same allocation (same start address and length, other stride)
        if explicit_x && ep >= 3 && c.n >= 2 && src.chance(1, 6) {
            obs.class("query:aliases-axis-allocation");
            let n = c.n;
            let mut t = vec![T::zero(); 2 * n - 1];
            for i in 0..n {
                t[2 * i] = T::of(c.x[i]);
                if i + 1 < n {
                    t[2 * i + 1] = T::of(c.x[i] + (c.x[i + 1] - c.x[i]) * 0.5);
                }
            }
            // strictly increasing storage? (midpoints may collide with knots on ulp-clustered axes)
            if t.windows(2).all(|w| w[0] < w[1]) {
                let store = Array1::from_vec(t);
                let xview = store.slice(ndarray::s![..;2]);
                let qalias = store.slice(ndarray::s![..n]);
                let qindep = qalias.to_owned();
                let run = |q: ndarray::ArrayViewD<'_, T>| -> Option<Out<T>> {
                    let r = crate::adapt::with_interp1_xview::<T, Out<T>>(xview.view(), &data_c, c.dd, &strat, &mut |i| {
                        catch(|| i.t_array(q.clone(), QDim::S1)).map(|o| o.unwrap().map_err(|e| format!("Err({e})"))).unwrap_or_else(|p| Err(format!("panic: {p}")))
                    })?;
                    r.ok()
                };
                if let (Some(a), Some(b)) = (run(qalias.view().into_dyn()), run(qindep.view().into_dyn())) {
                    obs.asserts += 1;
                    if !same(&a, &b) {
                        fail!("layout-dependence/query-aliases-axis", "a rank-1 query that is a view into the allocation behind the x axis gives other results than an independent copy of it; {ctx}");
                    }
                }
            }
        }
        // (b) equal lanes handed over as a broadcast (stride 0) view of the first lane
        if let Some(col) = broadcastable(&c.data, c.n, c.lanes) {
            obs.class("data:broadcast-view");
            let mut bshape = vec![c.n];
            bshape.extend(c.trailing.iter().map(|_| 1));
            let bi = catch(|| build1_bcast::<T>(explicit_x.then(|| x_c.clone()), arr_d::<T>(&bshape, &col), &c.shape(), c.dd, &strat));
            match bi {
                Ok(Some(Ok(i))) => {
                    let mut buf_b = blank(&bshape_buf(&bshape, ep, &qshape, &c.trailing), Layout::C, poison, src);
                    let rb = call1(i.as_ref(), ep, &q_c, q_owned, qd, &mut buf_b);
                    obs.asserts += 1;
                    // spline coefficients may be computed per type (view data vs owned data): compare as in the owned-vs-view cross check
                    let exact = matches!(c.axis_class, AxisClass::Index | AxisClass::Unit | AxisClass::Dyadic | AxisClass::Symmetric);
                    if (matches!(c.strat, StratSel::Linear) || exact || data_view) && !same(&base, &rb) {
                        fail!("layout-dependence/broadcast-view", "data with equal lanes handed over as a broadcast (stride 0) view gives other results than the owned array with the same contents; {ctx}");
                    }
                }
                Ok(Some(Err(e))) => fail!("layout-build-rejected/data:broadcast", "build() rejected a broadcast view of valid data: {e}; {ctx}"),
                Ok(None) => {}
                Err(p) => fail!("layout-build-panic/data:broadcast", "build() panicked for a broadcast view: {p}; {ctx}"),
            }
        }
        // owned vs view (different concrete types)
        let exact_axis = matches!(c.axis_class, AxisClass::Index | AxisClass::Unit | AxisClass::Dyadic | AxisClass::Symmetric);
        let cross = with_interp1::<T, Out<T>>(explicit_x.then_some(&x_c), !axes_view, &data_c, !data_view, c.dd, &strat, &mut |i| call1(i, ep, &q_c, !q_owned, qd, &mut buf_x));
        if let Some(Ok(cr)) = cross {
            let bit = same(&base, &cr);
            obs.count(if bit { "owned_vs_view_bit_equal" } else { "owned_vs_view_not_bit_equal" }, 1);
            if matches!(c.strat, StratSel::Linear) || exact_axis {
                obs.class("cross:owned-vs-view");
                obs.asserts += 1;
                if !bit {
                    fail!("ownership-dependence", "owned and view storage give different results; {ctx}");
                }
            }
        }
        obs.nontrivial = ld != Layout::C || lq != Layout::C || lb != Layout::C || (explicit_x && lx != Layout::C);
        if obs.nontrivial {
            c.key(obs);
            obs.key(&ctx);
        }
        obs.describe(|| json!({"case": ctx, "data_strides": data_l.strides(), "query_strides": q_l.strides(), "buffer_strides": buf_l.strides()}));
    } else {
        let g = Grid::gen::<T>(src, 2);
        g.classes(obs);
        obs.class("strat:Bilinear");
        let ep = if ep == 0 && g.dd != DDim::S2 { 1 } else { ep };
        let qshape: Vec<usize> = if ep <= 2 { vec![] } else { (0..qrank).map(|_| src.usize_in(1, 3)).collect() };
        let qd = if ep <= 2 { QDim::S0 } else { qd };
        let qlen = product(&qshape);
        let pts: Vec<(f64, f64)> = (0..qlen).map(|_| super::c04::query2::<T>(src, &g.x, &g.y).0).collect();
        let qx_c = ArrayD::from_shape_vec(IxDyn(&qshape), pts.iter().map(|p| T::of(p.0)).collect()).unwrap();
        let qy_c = ArrayD::from_shape_vec(IxDyn(&qshape), pts.iter().map(|p| T::of(p.1)).collect()).unwrap();
        let qx_l = with_layout(&qx_c, lq, junk, src);
        let lq2 = pick(src);
        let qy_l = with_layout(&qy_c, lq2, junk, src);
        let mut want = qshape.clone();
        want.extend_from_slice(&g.trailing);
        let bshape = if ep == 2 { g.trailing.clone() } else { want.clone() };
        let data_c = arr_d::<T>(&g.shape(), &g.data);
        let data_l = with_layout(&data_c, ld, junk, src);
        let (x_c, y_c) = (arr_1::<T>(&g.x), arr_1::<T>(&g.y));
        let x_l: Array1<T> = with_layout(&x_c.clone().into_dyn(), lx, junk, src).into_dimensionality().unwrap();
        let y_l: Array1<T> = with_layout(&y_c.clone().into_dyn(), ly, junk, src).into_dimensionality().unwrap();
        let (ex, ey) = (g.cx != AxisClass::Index, g.cy != AxisClass::Index);
        let mut buf_c = blank(&bshape, Layout::C, poison, src);
        let mut buf_l = blank(&bshape, lb, poison, src);
        let mut buf_x = blank(&bshape, Layout::C, poison, src);
        label(obs, ld, ex.then_some(lx), ey.then_some(ly), lq, lb, ep, qd, data_view, &qx_l, &buf_l);
        let base = with_interp2::<T, Out<T>>(ex.then_some(&x_c), ey.then_some(&y_c), axes_view, &data_c, data_view, g.dd, false, &mut |i| call2(i, ep, &qx_c, &qy_c, q_owned, qd, &mut buf_c));
        let var = catch(|| with_interp2::<T, Out<T>>(ex.then_some(&x_l), ey.then_some(&y_l), axes_view, &data_l, data_view, g.dd, false, &mut |i| call2(i, ep, &qx_l, &qy_l, q_owned, qd, &mut buf_l)));
        let base = match base {
            Some(Ok(b)) => b,
            Some(Err(e)) => fail!("build-failed", "standard-layout build failed: {e}"),
            None => fail!("oracle-bug", "not expressible"),
        };
        let var = match var {
            Ok(Some(Ok(v))) => v,
            Ok(Some(Err(e))) => fail!(format!("layout-build-rejected/2d/data:{}", ld.name()), "2-D build() rejected layouts (data {}, x {}, y {}): {e}", ld.name(), lx.name(), ly.name()),
            Ok(None) => fail!("oracle-bug", "not expressible"),
            Err(p) => fail!(format!("layout-build-panic/2d/data:{}", ld.name()), "2-D build() panicked for layouts (data {}, x {}, y {}): {p}", ld.name(), lx.name(), ly.name()),
        };
        let ctx = format!("T={} Bilinear data {}{:?} ({}, {}), x {} y {} ({}), query {}{:?} (xs {}, ys {}, {}), buffer {:?} ({}), entry {}", T::NAME, g.dd.name(), g.shape(), ld.name(), if data_view { "view" } else { "owned" },
            if ex { lx.name() } else { "default" }, if ey { ly.name() } else { "default" }, if axes_view { "view" } else { "owned" }, qd.name(), qshape, lq.name(), lq2.name(), if q_owned { "owned" } else { "view" }, bshape, lb.name(), ["scalar", "interp", "interp_into", "array", "array_into"][ep]);
        obs.asserts += 1;
        if base.is_err() {
            fail!("oracle-bug", "standard-layout run failed: {:?}; {ctx}", base.err());
        }
        if !same(&base, &var) {
            let what = match &var {
                Err(e) => format!("fails with {e}"),
                Ok(_) => "returns different values".into(),
            };
            let culprit = if var.is_err() && ep >= 2 && ep != 3 && lb != Layout::C { format!("buffer:{}", lb.name()) } else if ld != Layout::C { format!("data:{}", ld.name()) } else { "query-or-axis".to_string() };
            fail!(format!("layout-dependence/2d/{}/{culprit}", if var.is_err() { "failure" } else { "values" }), "the call {what} although only memory layouts differ from the standard-layout run; {ctx}");
        }
        // aliasing queries: a square rank-2 query whose ys is the transposed *view* of the very memory behind xs
        // (a meshgrid built by transposition) must give what two independent arrays with the same contents give
        if ep == 3 && qshape.len() == 2 && qshape[0] == qshape[1] && qshape[0] >= 2 {
            let (lo, hi) = (g.x[0].max(g.y[0]), g.x[g.nx - 1].min(g.y[g.ny - 1]));
            if lo < hi {
                obs.class("query:aliasing-transpose");
                let k = qshape[0];
                let vals: Vec<T> = (0..k * k).map(|m| T::of(lo + (hi - lo) * ((m * 7919 % 97) as f64 / 97.0))).collect();
                let xx = ArrayD::from_shape_vec(IxDyn(&qshape), vals).unwrap();
                let yy_owned = xx.view().reversed_axes().to_owned();
                let yy_std = ArrayD::from_shape_vec(IxDyn(&qshape), yy_owned.iter().cloned().collect()).unwrap();
                let r = with_interp2::<T, (Out<T>, Out<T>)>(ex.then_some(&x_c), ey.then_some(&y_c), axes_view, &data_c, data_view, g.dd, false, &mut |i| {
                    let indep = catch(|| i.t_array(xx.view(), yy_std.view(), qd)).map(|o| o.unwrap().map_err(|e| format!("Err({e})"))).unwrap_or_else(|p| Err(format!("panic: {p}")));
                    let alias = catch(|| i.t_array(xx.view(), xx.view().reversed_axes(), qd)).map(|o| o.unwrap().map_err(|e| format!("Err({e})"))).unwrap_or_else(|p| Err(format!("panic: {p}")));
                    (indep, alias)
                });
                if let Some(Ok((indep, alias))) = r {
                    obs.asserts += 1;
                    if !same(&indep, &alias) {
                        fail!("layout-dependence/2d/aliasing-queries", "ys passed as the transposed view of the memory behind xs gives other results than an independent array with the same contents; {ctx}");
                    }
                }
            }
        }
        // aliasing axes: x and y as two shared arrays over one allocation (same first element, same length, other stride)
        if let Some(abuf) = g.alias_buffer() {
            obs.class("axes:aliasing-views");
            let (xa, ya) = aliasing_pair::<T>(abuf.iter().map(|&v| T::of(v)).collect(), g.nx);
            let (lo, hi) = (g.x[0].max(g.y[0]), g.x[g.nx - 1].min(g.y[g.ny - 1]));
            let diag: Vec<T> = [0.07, 0.3, 0.55, 0.8, 0.96].iter().map(|t| T::of(lo + (hi - lo) * t)).collect();
            let on_diag = |i: &dyn I2<T>| -> Vec<Out<T>> {
                diag.iter().map(|&v| catch(|| i.t_interp(v, v)).map(|o| o.map_err(|e| format!("Err({e})"))).unwrap_or_else(|p| Err(format!("panic: {p}")))).collect()
            };
            let want = with_interp2::<T, Vec<Out<T>>>(Some(&x_c), Some(&y_c), false, &data_c, false, g.dd, false, &mut |i| on_diag(i));
            match catch(|| build2_any::<T, ndarray::OwnedArcRepr<T>>(Some(xa), Some(ya), data_c.clone(), g.dd, false)) {
                Ok(Some(Ok(i))) => {
                    let mut buf_a = blank(&bshape, Layout::C, poison, src);
                    let ra = call2(i.as_ref(), ep, &qx_c, &qy_c, q_owned, qd, &mut buf_a);
                    obs.asserts += 1;
                    if !same(&base, &ra) {
                        fail!("layout-dependence/2d/aliasing-axes", "x and y handed over as two views of one allocation (same start, same length, different strides) give other results than independent arrays with the same contents; {ctx}");
                    }
                    if let Some(Ok(want)) = want {
                        let got = on_diag(i.as_ref());
                        for (k, (w, gt)) in want.iter().zip(got.iter()).enumerate() {
                            obs.asserts += 1;
                            if !same(w, gt) {
                                fail!("layout-dependence/2d/aliasing-axes", "x and y handed over as two views of one allocation: interp({v:e}, {v:e}) differs from the result with independent axis arrays; {ctx}", v = diag[k].f());
                            }
                        }
                    }
                }
                Ok(Some(Err(e))) => fail!("layout-build-rejected/2d/aliasing-axes", "build() rejected valid axes that alias each other: {e}; {ctx}"),
                Ok(None) => {}
                Err(p) => fail!("layout-build-panic/2d/aliasing-axes", "build() panicked: {p}; {ctx}"),
            }
        }
        let cross = with_interp2::<T, Out<T>>(ex.then_some(&x_c), ey.then_some(&y_c), !axes_view, &data_c, !data_view, g.dd, false, &mut |i| call2(i, ep, &qx_c, &qy_c, !q_owned, qd, &mut buf_x));
        if let Some(Ok(cr)) = cross {
            obs.class("cross:owned-vs-view");
            obs.asserts += 1;
            if !same(&base, &cr) {
                fail!("ownership-dependence/2d", "owned and view storage give different results; {ctx}");
            }
        }
        obs.nontrivial = ld != Layout::C || lq != Layout::C || lb != Layout::C || (ex && lx != Layout::C) || (ey && ly != Layout::C);
        if obs.nontrivial {
            g.key(obs);
            obs.key(&ctx);
        }
        obs.describe(|| json!({"case": ctx, "data_strides": data_l.strides(), "buffer_strides": buf_l.strides()}));
    }
    Ok(())
}

#[allow(clippy::too_many_arguments)]
fn label<T>(obs: &mut Obs, ld: Layout, lx: Option<Layout>, ly: Option<Layout>, lq: Layout, lb: Layout, ep: usize, qd: QDim, data_view: bool, q: &ArrayD<T>, buf: &ArrayD<T>) {
    obs.class(format!("data:{}", ld.name()));
    if let Some(l) = lx {
        obs.class(format!("x:{}", l.name()));
    }
    if let Some(l) = ly {
        obs.class(format!("y:{}", l.name()));
    }
    obs.class(format!("ep:{}", ["scalar", "interp", "interp_into", "array", "array_into"][ep]));
    if ep >= 3 {
        obs.class(format!("query:{}", lq.name()));
        obs.class(format!("qdim:{}", qd.name()));
        let _ = q;
    }
    if ep == 2 || ep == 4 {
        obs.class(format!("buffer:{}", lb.name()));
        if ep == 4 && !buf.is_standard_layout() && qd != QDim::S1 {
            obs.class("buffer-nonstd&general-path");
        }
    }
    obs.class(if data_view { "store:data-view" } else { "store:data-owned" });
}
