//! C14 - *_into calls fill exactly the caller's buffer or reject a wrongly shaped one.

use super::c04::Grid;
use super::*;
use crate::adapt::*;
use crate::common::*;
use crate::fail;
use crate::gen::*;
use crate::gen1d::*;
use ndarray::{ArrayD, Axis, IxDyn, Slice};

pub struct C14;

impl Check for C14 {
    fn id(&self) -> &'static str {
        "C14"
    }
    fn entropy_len(&self) -> usize {
        500
    }
    fn cases(&self, tier: Tier) -> u64 {
        tier.pick(500_000, 12_000_000)
    }
    fn run_case(&self, src: &mut Src, obs: &mut Obs) -> Result<(), Fail> {
        if src.chance(1, 400) {
            return if src.chance(1, 4) { long_batch::<f32>(src, obs) } else { long_batch::<f64>(src, obs) };
        }
        let two_d = src.chance(1, 3);
        match (two_d, src.chance(1, 5)) {
            (false, false) => run::<f64>(src, obs, false),
            (false, true) => run::<f32>(src, obs, false),
            (true, false) => run::<f64>(src, obs, true),
            (true, true) => run::<f32>(src, obs, true),
        }
    }
    fn regressions(&self) -> Vec<(&'static str, fn() -> Result<(), Fail>)> {
        vec![("d4-wrong-shape-accepted", super::regress::d4_wrong_shape_accepted)]
    }
    fn rule(&self) -> String {
        "every entry point with a buffer (interp_into, interp_array_into) of Interp1D (Linear, CubicSpline) and Interp2D (Bilinear), query dim \
         types Ix1, Ix2, Ix3 and IxDyn (rank 0..3), data rank 1..4 (static and dynamic), query axis lengths 0..9 (rank 1) / 0..4. The buffer is a window (offset 0..1, \
         stride 1..3 per axis) into a larger array filled with a poison bit pattern (a NaN payload no computation produces). Buffer shapes: the \
         required shape; one axis -1 / +1; trailing axes permuted; query axes permuted; a different shape with the same element count; wrong rank \
         (dynamic); 2-D: xs / ys of different shapes. All queries are in range. Oracle: required shape => Ok, no poison left in the window, window \
         bit-identical to the allocating variant, every storage element outside the window still poison; any other shape => panic (never Ok). \
         Non-trivial: a wrong shape with the right element count, an empty query, or query rank >= 2."
            .into()
    }
    fn assumptions(&self) -> Vec<String> {
        vec!["a write past the backing allocation cannot be seen by the poison frame; that is left to the sanitizer build of the fuzz target".into(),
             "panic messages are not part of the oracle".into()]
    }
    fn required_classes(&self, _t: Tier) -> Vec<&'static str> {
        vec!["dim:1", "dim:2", "buf:right", "buf:axis-1", "buf:axis+1", "buf:trailing-permuted", "buf:query-permuted", "buf:same-count", "buf:wrong-rank", "2d:xs-ys-differ", "ep:interp_into", "ep:array_into", "qdim:Ix1", "qdim:Ix2", "qdim:IxDyn", "empty-query-wrong-trailing", "right-shape:ok", "right-shape:ok-strided-window", "wrong-shape:panicked"]
    }
}

/// long rank-1 batches (up to 9000 points) whose length sits on or next to a multiple of a power of two, with a buffer that
/// has the right number of rows or one row too few / too many (block-wise processing must not lose the row-count check)
fn long_batch<T: Flt>(src: &mut Src, obs: &mut Obs) -> Result<(), Fail> {
    obs.class("batch:long");
    obs.class(format!("T:{}", T::NAME));
    let two_d = src.chance(1, 4);
    obs.class(if two_d { "dim:2" } else { "dim:1" });
    let b = 1usize << src.usize_in(6, 12);
    let m = src.usize_in(1, (9000 / b).max(1));
    let q = match src.below(4) {
        0 | 1 => b * m,
        2 => b * m + 1,
        _ => b * m - 1,
    }
    .clamp(2, 9001);
    let delta: isize = [0, -1, 1, -1, 1][src.below(5) as usize];
    let rows = (q as isize + delta) as usize;
    let lanes = src.usize_in(1, 2);
    let dynq = src.chance(1, 3);
    let qd = if dynq { QDim::Dyn } else { QDim::S1 };
    obs.class(format!("qdim:{}", qd.name()));
    obs.class(match delta {
        0 => "buf:right",
        -1 => "buf:axis-1",
        _ => "buf:axis+1",
    });
    let pk = poison_key::<T>();
    let qv: Vec<T> = (0..q).map(|k| T::of(((k * 37) % 101) as f64 / 101.0 * 2.0)).collect();
    let qa = ArrayD::from_shape_vec(IxDyn(&[q]), qv).unwrap();
    let mut buf = ArrayD::from_elem(IxDyn(&[rows, lanes]), T::from_key(pk));
    let desc = format!("T={} {} query {}[{q}] (block {b} x {m}), data lanes {lanes}, buffer [{rows}, {lanes}]", T::NAME, if two_d { "Bilinear" } else { "Interp1D" }, qd.name());
    let res: Result<Option<Result<(), String>>, String> = if two_d {
        let data: Vec<f64> = (0..3 * 3 * lanes).map(|i| (i * i % 7) as f64).collect();
        let i = match build2::<T>(None, None, arr_d::<T>(&[3, 3, lanes], &data), DDim::S3, false) {
            Some(Ok(i)) => i,
            _ => fail!("oracle-bug", "grid build failed"),
        };
        catch(|| i.t_array_into(qa.view(), qa.view(), qd, buf.view_mut()))
    } else {
        let data: Vec<f64> = (0..3 * lanes).map(|i| (i * i % 5) as f64).collect();
        let strat = if src.bool() { Strat1::Linear { extrapolate: false } } else { Strat1::Spline { extrapolate: false, bc: Bc::Natural } };
        let i = match build1::<T>(None, arr_d::<T>(&[3, lanes], &data), DDim::S2, &strat) {
            Some(Ok(i)) => i,
            _ => fail!("oracle-bug", "build failed"),
        };
        catch(|| i.t_array_into(qa.view(), qd, buf.view_mut()))
    };
    obs.asserts += 1;
    let untouched = buf.iter().filter(|v| v.key() == pk).count();
    match (delta, res) {
        (0, Ok(Some(Ok(())))) => {
            if untouched != 0 {
                fail!("not-overwritten/long-batch", "{desc}: the call returned Ok but {untouched} buffer elements were never written");
            }
            obs.class("right-shape:ok");
        }
        (0, other) => fail!("right-shape-rejected/long-batch", "{desc}: a correctly shaped buffer was not accepted: {other:?}"),
        (_, Ok(Some(Ok(())))) => fail!(format!("wrong-shape-accepted/long-batch/{}", if delta < 0 { "buf:axis-1" } else { "buf:axis+1" }), "{desc}: the call returned Ok ({untouched} buffer elements untouched)"),
        (_, Ok(None)) => fail!("oracle-bug", "buffer rank"),
        (_, _) => obs.class("wrong-shape:panicked"),
    }
    obs.nontrivial = delta != 0;
    obs.key(&desc);
    obs.describe(|| json!({"case": desc}));
    Ok(())
}

pub fn poison_key<T: Flt>() -> u64 {
    if T::MANT == 53 {
        0x7ff8_dead_beef_0001
    } else {
        0x7fc0_beef
    }
}

/// storage + window description
pub struct Framed<T> {
    pub big: ArrayD<T>,
    pub offs: Vec<usize>,
    pub steps: Vec<usize>,
    pub shape: Vec<usize>,
}

impl<T: Flt> Framed<T> {
    pub fn new(src: &mut Src, shape: &[usize]) -> Self {
        let offs: Vec<usize> = shape.iter().map(|_| src.below(2) as usize).collect();
        let steps: Vec<usize> = shape.iter().map(|_| 1 + src.below(3) as usize).collect();
        let bigshape: Vec<usize> = shape.iter().zip(&offs).zip(&steps).map(|((&l, &o), &k)| o + l * k + src.below(2) as usize).collect();
        Framed { big: ArrayD::from_elem(IxDyn(&bigshape), T::from_key(poison_key::<T>())), offs, steps, shape: shape.to_vec() }
    }
    pub fn window(&mut self) -> ndarray::ArrayViewMutD<'_, T> {
        let (offs, steps, shape) = (self.offs.clone(), self.steps.clone(), self.shape.clone());
        let mut v = self.big.view_mut();
        for ax in 0..shape.len() {
            let (o, k, l) = (offs[ax], steps[ax], shape[ax]);
            let end = if l == 0 { o } else { o + (l - 1) * k + 1 };
            v.slice_axis_inplace(Axis(ax), Slice::new(o as isize, Some(end as isize), k as isize));
        }
        v
    }
    /// (window contents in logical order, number of non-poison elements outside the window)
    pub fn inspect(&mut self) -> (Vec<T>, usize) {
        let p = poison_key::<T>();
        let total_touched = self.big.iter().filter(|v| v.key() != p).count();
        let win: Vec<T> = self.window().iter().cloned().collect();
        let inside_touched = win.iter().filter(|v| v.key() != p).count();
        (win, total_touched - inside_touched)
    }
}

fn run<T: Flt>(src: &mut Src, obs: &mut Obs, two_d: bool) -> Result<(), Fail> {
    obs.class(if two_d { "dim:2" } else { "dim:1" });
    obs.class(format!("T:{}", T::NAME));
    // subject
    enum Sub<T: Flt> {
        One(Case1, Box<dyn I1<T>>),
        Two(Grid, Box<dyn I2<T>>),
    }
    let sub = if two_d {
        let mut g = Grid::gen::<T>(src, 2);
        if !g.trailing.is_empty() && src.chance(1, 10) {
            g.trailing[0] = 0;
            g.lanes = 0;
            g.data.clear();
        }
        let i = g.build::<T>(false)?;
        Sub::Two(g, i)
    } else {
        let o = Opts1 { lens: &[0, 1, 2, 2, 3, 3], max_lanes: 12, max_n_linear: 8, spline: crate::splinegen::SplineOpts { max_n: 8, ..Default::default() }, ..Opts1::default() };
        let c = Case1::gen::<T>(src, &o);
        let i = c.build::<T>(false)?;
        Sub::One(c, i)
    };
    let (trailing, sname, ddn): (Vec<usize>, String, &str) = match &sub {
        Sub::One(c, _) => (c.trailing.clone(), c.strat.name(), c.dd.name()),
        Sub::Two(g, _) => (g.trailing.clone(), "Bilinear".into(), g.dd.name()),
    };
    obs.class(format!("strat:{sname}"));
    let single = src.chance(1, 4);
    obs.class(if single { "ep:interp_into" } else { "ep:array_into" });
    // query
    let qd = if single { QDim::S0 } else { src.pick(&[QDim::S1, QDim::S1, QDim::S2, QDim::S3, QDim::Dyn, QDim::Dyn]) };
    let qrank = if single { 0 } else { qd.static_rank().unwrap_or_else(|| src.usize_in(0, 3)) };
    let qshape: Vec<usize> = if single { vec![] } else { crate::gen1d::qshape(src, qrank) };
    if !single {
        obs.class(format!("qdim:{}", qd.name()));
    }
    let qlen = product(&qshape);
    let (xs, ys): (Vec<T>, Vec<T>) = match &sub {
        Sub::One(c, _) => ((0..qlen.max(1)).map(|_| T::of(query_in_range::<T>(src, &c.x).0)).collect(), vec![]),
        Sub::Two(g, _) => {
            let p: Vec<(f64, f64)> = (0..qlen.max(1)).map(|_| super::c04::query2::<T>(src, &g.x, &g.y).0).collect();
            (p.iter().map(|q| T::of(q.0)).collect(), p.iter().map(|q| T::of(q.1)).collect())
        }
    };
    let mut want = qshape.clone();
    want.extend_from_slice(&trailing);
    // buffer shape
    let mut bshape = want.clone();
    let mut kind = "buf:right";
    let dynamic_buf = qd == QDim::Dyn || ddn == "IxDyn";
    let mut ys_shape_differs = false;
    match src.below(9) {
        0 | 1 | 2 => {}
        3 if !bshape.is_empty() => {
            let k = src.below(bshape.len() as u64) as usize;
            if bshape[k] > 0 {
                bshape[k] -= 1;
                kind = "buf:axis-1";
            } else {
                bshape[k] += 1;
                kind = "buf:axis+1";
            }
        }
        4 if !bshape.is_empty() => {
            let k = src.below(bshape.len() as u64) as usize;
            bshape[k] += 1;
            kind = "buf:axis+1";
        }
        5 => {
            // permute trailing axes / query axes
            let (lo, hi, name) = if src.bool() { (qshape.len(), want.len(), "buf:trailing-permuted") } else { (0, qshape.len(), "buf:query-permuted") };
            if hi - lo >= 2 {
                bshape[lo..hi].rotate_left(1);
                if bshape != want {
                    kind = name;
                }
            }
        }
        6 => {
            // same element count, different shape: move a factor between two axes
            if bshape.len() >= 2 {
                let a = src.below(bshape.len() as u64) as usize;
                let b = (a + 1 + src.below(bshape.len() as u64 - 1) as usize) % bshape.len();
                for f in [2usize, 3] {
                    if bshape[a] % f == 0 && bshape[a] > 0 {
                        bshape[a] /= f;
                        bshape[b] *= f;
                        break;
                    }
                }
                if bshape != want {
                    kind = "buf:same-count";
                }
            }
        }
        7 if dynamic_buf => {
            if src.bool() || bshape.is_empty() {
                bshape.push(1);
            } else {
                let l = bshape.pop().unwrap();
                if let Some(last) = bshape.last_mut() {
                    *last *= l.max(1);
                }
            }
            if bshape != want {
                kind = "buf:wrong-rank";
            }
        }
        8 if two_d && !single && qlen > 1 => {
            ys_shape_differs = true;
            kind = "2d:xs-ys-differ";
        }
        _ => {}
    }
    obs.class(kind);
    if qlen == 0 && !single && bshape != want && bshape[..qshape.len().min(bshape.len())] == qshape[..qshape.len().min(bshape.len())] {
        obs.class("empty-query-wrong-trailing");
    }
    let right = bshape == want && !ys_shape_differs;
    // allocating reference
    let qa = ArrayD::from_shape_vec(IxDyn(&qshape), xs[..qlen.max(if single { 1 } else { 0 })].to_vec()).unwrap_or_else(|_| ArrayD::from_elem(IxDyn(&[]), xs[0]));
    let ya = if two_d {
        ArrayD::from_shape_vec(IxDyn(&qshape), ys[..qlen.max(if single { 1 } else { 0 })].to_vec()).unwrap_or_else(|_| ArrayD::from_elem(IxDyn(&[]), ys[0]))
    } else {
        ArrayD::from_elem(IxDyn(&[]), T::zero())
    };
    let reference: Option<Arr<T>> = if right {
        Some(match &sub {
            Sub::One(_, i) => {
                if single { i.t_interp(xs[0]) } else { i.t_array(qa.view(), qd).unwrap() }
            }
            Sub::Two(_, i) => {
                if single { i.t_interp(xs[0], ys[0]) } else { i.t_array(qa.view(), ya.view(), qd).unwrap() }
            }
        }
        .map_err(|e| Fail::new("in-range-rejected", e))?)
    } else {
        None
    };
    // ys with a different shape (same length, other factorisation or one element fewer)
    let ya2 = if ys_shape_differs {
        let mut s2 = qshape.clone();
        if s2.len() >= 2 && s2[0] != s2[1] {
            s2.swap(0, 1);
            ArrayD::from_shape_vec(IxDyn(&s2), ys[..qlen].to_vec()).unwrap()
        } else {
            let k = s2.iter().position(|&l| l > 1).unwrap_or(0);
            s2[k] -= 1;
            let l2 = product(&s2);
            ArrayD::from_shape_vec(IxDyn(&s2), ys[..l2].to_vec()).unwrap()
        }
    } else {
        ya.clone()
    };
    let mut fr = Framed::<T>::new(src, &bshape);
    let outcome: Result<Option<R<()>>, String> = {
        let w = fr.window();
        catch(move || match &sub {
            Sub::One(_, i) => {
                if single { i.t_interp_into(xs[0], w) } else { i.t_array_into(qa.view(), qd, w) }
            }
            Sub::Two(_, i) => {
                if single { i.t_interp_into(xs[0], ys[0], w) } else { i.t_array_into(qa.view(), ya2.view(), qd, w) }
            }
        })
    };
    let ctx = format!("T={} {sname} data dim {ddn} trailing {trailing:?}, query {}{qshape:?}, buffer shape {bshape:?} (required {want:?}, {kind})", T::NAME, qd.name());
    obs.asserts += 1;
    match outcome {
        Ok(None) => {
            // not expressible in the static types (ranks differ): not a case
            obs.class("inexpressible");
            return Ok(());
        }
        Err(_p) => {
            if right {
                // C14 as stated constrains Ok results and wrongly shaped buffers only. That a correctly
                // shaped buffer must be *accepted* whatever its strides is C13 (and, for standard
                // layout, C09); here it is only counted, and the run is inconclusive if no correctly
                // shaped buffer was ever accepted (required class below).
                obs.count("right_shape_rejected_with_panic(see C13)", 1);
            } else {
                obs.class("wrong-shape:panicked");
            }
        }
        Ok(Some(Err(e))) => fail!("unexpected-err", "all queries in range but the call returned Err({e}); {ctx}"),
        Ok(Some(Ok(()))) => {
            if !right {
                fail!(format!("wrong-shape-accepted/{kind}"), "the call returned Ok for a wrongly shaped buffer; {ctx}");
            }
            let (win, outside) = fr.inspect();
            let p = poison_key::<T>();
            let r = reference.as_ref().unwrap();
            obs.asserts += 2;
            if win.iter().any(|v| v.key() == p) {
                fail!("buffer-not-filled", "Ok returned but {} of {} buffer elements were never written; {ctx}", win.iter().filter(|v| v.key() == p).count(), win.len());
            }
            if win.iter().map(|v| v.key()).ne(r.v.iter().map(|v| v.key())) {
                fail!("into-differs-from-alloc", "buffer contents differ from the allocating variant; {ctx}; window steps {:?}", fr.steps);
            }
            obs.class("right-shape:ok");
            if fr.steps.iter().any(|&k| k > 1) {
                obs.class("right-shape:ok-strided-window");
            }
            if outside != 0 {
                fail!("wrote-outside-buffer", "{outside} storage elements outside the buffer view were modified; {ctx}; window offsets {:?} steps {:?}", fr.offs, fr.steps);
            }
        }
    }
    obs.nontrivial = kind == "buf:same-count" || (qlen == 0 && !single) || qshape.len() >= 2 || kind == "buf:trailing-permuted" || kind == "buf:query-permuted";
    if obs.nontrivial {
        obs.key(&ctx);
        obs.key(&(fr.offs.clone(), fr.steps.clone()));
    }
    obs.describe(|| json!({"case": ctx, "window_offsets": fr.offs, "window_steps": fr.steps}));
    Ok(())
}
