//! One module per property.

use crate::exact::Rat;
use crate::gen::Flt;
use serde_json::{json, Value};

pub mod c01;
pub mod c02;
pub mod c03;

/// Reference bracket: largest i <= n-2 with x[i] <= q; 0 below the range; n-2 at/above the end.
pub fn bracket(x: &[f64], q: f64) -> usize {
    let n = x.len();
    let mut i = 0;
    for k in 0..n - 1 {
        if x[k] <= q {
            i = k;
        } else {
            break;
        }
    }
    i
}

/// render a float with its bit pattern
pub fn ff<T: Flt>(v: f64) -> Value {
    json!(format!("{:e} [{:#x}]", v, T::of(v).key()))
}

pub fn ffs<T: Flt>(v: &[f64], max: usize) -> Value {
    let mut out: Vec<Value> = v.iter().take(max).map(|&x| ff::<T>(x)).collect();
    if v.len() > max {
        out.push(json!(format!("... {} more", v.len() - max)));
    }
    Value::Array(out)
}

/// exact value of the line through (x1,y1),(x2,y2) at q
pub fn exact_line(x1: f64, y1: f64, x2: f64, y2: f64, q: f64) -> Rat {
    let (rx1, ry1, rx2, ry2, rq) =
        (Rat::from_f64(x1), Rat::from_f64(y1), Rat::from_f64(x2), Rat::from_f64(y2), Rat::from_f64(q));
    ry1.add(&ry2.sub(&ry1).mul(&rq.sub(&rx1)).div(&rx2.sub(&rx1)))
}

/// |got - want| <= tol ? returns the normalised error |diff|/tol (0 when both are zero)
pub fn within(got: f64, want: &Rat, tol: f64) -> (bool, f64) {
    if !got.is_finite() {
        return (false, f64::INFINITY);
    }
    let d = Rat::from_f64(got).sub(want).abs();
    if d.is_zero() {
        return (true, 0.0);
    }
    if tol <= 0.0 {
        return (false, f64::INFINITY);
    }
    let t = Rat::from_f64(tol);
    let ok = d.le(&t);
    (ok, d.to_f64() / tol)
}
