//! One module per property.

use crate::exact::Rat;
use crate::gen::Flt;
use serde_json::{json, Value};

pub mod c01;
pub mod regress;
pub mod c02;
pub mod c03;
pub mod c04;
pub mod c05;
pub mod c06;
pub mod c07;
pub mod c08;
pub mod c09;
pub mod c10;
pub mod c11;
pub mod c12;
pub mod c13;
pub mod c14;
pub mod c15;
pub mod c16;
pub mod c17;
pub mod c18;
pub mod c20;

/// Reference bracket: largest i <= n-2 with x[i] <= q; 0 below the range; n-2 at/above the end.
pub fn bracket(x: &[f64], q: f64) -> usize {
    let n = x.len();
    let mut i = 0;
    for k in 0..n - 1 {
        if x[k] <= q {
            i = k;
        } else {
            break;
        }
    }
    i
}

/// render a float with its bit pattern
pub fn ff<T: Flt>(v: f64) -> Value {
    json!(format!("{:e} [{:#x}]", v, T::of(v).key()))
}

pub fn ffs<T: Flt>(v: &[f64], max: usize) -> Value {
    let max = if std::env::var("VERIF_FULL_DESC").is_ok() { usize::MAX } else { max };
    let mut out: Vec<Value> = v.iter().take(max).map(|&x| ff::<T>(x)).collect();
    if v.len() > max {
        out.push(json!(format!("... {} more", v.len() - max)));
    }
    Value::Array(out)
}

/// exact value of the line through (x1,y1),(x2,y2) at q
pub fn exact_line(x1: f64, y1: f64, x2: f64, y2: f64, q: f64) -> Rat {
    let (rx1, ry1, rx2, ry2, rq) =
        (Rat::from_f64(x1), Rat::from_f64(y1), Rat::from_f64(x2), Rat::from_f64(y2), Rat::from_f64(q));
    ry1.add(&ry2.sub(&ry1).mul(&rq.sub(&rx1)).div(&rx2.sub(&rx1)))
}

/// |got - want| <= tol ? returns the normalised error |diff|/tol (0 when both are zero)
pub fn within(got: f64, want: &Rat, tol: f64) -> (bool, f64) {
    if !got.is_finite() {
        return (false, f64::INFINITY);
    }
    let d = Rat::from_f64(got).sub(want).abs();
    if d.is_zero() {
        return (true, 0.0);
    }
    if tol <= 0.0 {
        return (false, f64::INFINITY);
    }
    let t = Rat::from_f64(tol);
    let ok = d.le(&t);
    (ok, d.to_f64() / tol)
}

use crate::adapt::{Arr, QDim, I1};
use crate::common::Fail;

/// Evaluate 1-D queries through one of the value entry points.
/// ep: 0 interp_scalar (Ix1 data only), 1 interp, 2 interp_array Ix1, 3 interp_array Ix2, 4 interp_array IxDyn.
/// Returns Err(Fail) on a rejected query (callers only pass queries that must be answered).
pub fn eval1<T: Flt>(interp: &dyn I1<T>, qs: &[f64], ep: usize, lanes: usize, trailing: &[usize]) -> Result<Vec<Vec<T>>, Fail> {
    let nq = qs.len();
    let qt: Vec<T> = qs.iter().map(|&q| T::of(q)).collect();
    let mut res: Vec<Vec<T>> = Vec::with_capacity(nq);
    match ep {
        0 => {
            for &q in &qt {
                match interp.t_scalar(q).expect("scalar entry on non-Ix1 data") {
                    Ok(v) => res.push(vec![v]),
                    Err(e) => return Err(Fail::new("query-rejected", format!("interp_scalar({:e}) -> {e}", q.f()))),
                }
            }
        }
        1 => {
            for &q in &qt {
                match interp.t_interp(q) {
                    Ok(a) => res.push(a.v),
                    Err(e) => return Err(Fail::new("query-rejected", format!("interp({:e}) -> {e}", q.f()))),
                }
            }
        }
        _ => {
            let (qshape, qd) = match ep {
                2 => (vec![nq], QDim::S1),
                3 => {
                    let a = if nq % 4 == 0 { 4 } else if nq % 3 == 0 { 3 } else if nq % 2 == 0 { 2 } else { 1 };
                    (vec![a, nq / a], QDim::S2)
                }
                _ => (vec![nq], QDim::Dyn),
            };
            // the memory layout of the query array and the order of the points in the batch (as generated, ascending,
            // descending) are varied as a deterministic function of its content
            let hq = qs.iter().fold(0x77u64, |h, q| crate::common::splitmix(h ^ q.to_bits()));
            let mut order: Vec<usize> = (0..nq).collect();
            match crate::common::splitmix(hq ^ 0x50_27ED) % 6 {
                0 | 1 => order.sort_by(|&a, &b| qs[a].partial_cmp(&qs[b]).unwrap_or(std::cmp::Ordering::Equal)),
                2 => order.sort_by(|&a, &b| qs[b].partial_cmp(&qs[a]).unwrap_or(std::cmp::Ordering::Equal)),
                _ => {}
            }
            let qt: Vec<T> = order.iter().map(|&k| qt[k]).collect();
            let qa = crate::layout::realise(ndarray::ArrayD::from_shape_vec(ndarray::IxDyn(&qshape), qt).unwrap(), crate::layout::lay_from_hash(hq), T::of(-4.0e4));
            match interp.t_array(qa.view(), qd).unwrap() {
                Ok(Arr { shape, v }) => {
                    let mut want = qshape.clone();
                    want.extend_from_slice(trailing);
                    if shape != want {
                        return Err(Fail::new("result-shape", format!("interp_array shape {shape:?}, expected {want:?}")));
                    }
                    res = vec![Vec::new(); nq];
                    for (pos, &k) in order.iter().enumerate() {
                        res[k] = v[pos * lanes..(pos + 1) * lanes].to_vec();
                    }
                }
                Err(e) => return Err(Fail::new("query-rejected", format!("interp_array -> {e}"))),
            }
        }
    }
    Ok(res)
}

pub const EP_NAMES: [&str; 5] = ["scalar", "interp", "array1", "array2", "arraydyn"];

/// pick a value entry point (scalar only when the data is statically 1-D)
pub fn pick_ep(src: &mut crate::common::Src, scalar_ok: bool) -> usize {
    let ep = src.weighted(&[2, 2, 3, 2, 1]);
    if ep == 0 && !scalar_ok {
        1
    } else {
        ep
    }
}
