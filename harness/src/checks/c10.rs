//! C10 - build() accepts exactly the valid inputs and reports the rest as BuilderError.

use super::c12::{classify, Mono};
use super::*;
use crate::adapt::*;
use crate::common::*;
use crate::fail;
use crate::gen::*;
use crate::recstrat::*;
use crate::splinegen::*;
use ndarray::{ArrayD, IxDyn};
use ndarray_interp::interp1d::cubic_spline::RowBoundary;
use std::sync::{Arc, Mutex};

pub struct C10;

impl Check for C10 {
    fn id(&self) -> &'static str {
        "C10"
    }
    fn entropy_len(&self) -> usize {
        300
    }
    fn cases(&self, tier: Tier) -> u64 {
        tier.pick(2_000_000, 50_000_000)
    }
    fn run_case(&self, src: &mut Src, obs: &mut Obs) -> Result<(), Fail> {
        if src.chance(1, 600) {
            return if src.bool() { run_long::<f64>(src, obs) } else { run_long::<f32>(src, obs) };
        }
        let two_d = src.chance(1, 3);
        match (two_d, src.chance(1, 5)) {
            (false, false) => run1::<f64>(src, obs),
            (false, true) => run1::<f32>(src, obs),
            (true, false) => run2::<f64>(src, obs),
            (true, true) => run2::<f32>(src, obs),
        }
    }
    fn regressions(&self) -> Vec<(&'static str, fn() -> Result<(), Fail>)> {
        vec![("d2-rank-too-small", super::regress::d2_rank_too_small)]
    }
    fn rule(&self) -> String {
        "the builder decision table with independent choices per requirement: strategy (Linear min 2, CubicSpline min 3 with every boundary \
         selection, custom recording strategies with declared minimum 0..4; Bilinear and custom 2-D); data rank (dynamic 0 / 1 / ok, static); \
         length along each interpolated axis 0..min+2; axis: default or explicit of length n-1, n, n+1, 0, 1 with order pattern increasing / \
         tie / swap / NaN at a generated position / decreasing / +-inf at an end; per-lane boundary array: ok, leading length != 1, a trailing \
         length off by one, wrong rank (dynamic); Periodic ends equal / unequal / NaN in a generated lane; x and y independently in 2-D. Oracle: \
         validity predicate (strictly increasing as defined by C12's reference classification): valid => Ok; invalid => Err whose kind is in the \
         set mapped from the violated requirements; construction + build inside catch_unwind, a panic is a violation; a custom strategy's build \
         must not be reached for invalid input. Non-trivial: >= 1 violated requirement."
            .into()
    }
    fn assumptions(&self) -> Vec<String> {
        vec![
            "which of several violated requirements is reported is free; only the kind set is checked, never the message".into(),
            "an axis with fewer than 2 elements is not strictly increasing (the crate's documented classification)".into(),
        ]
    }
    fn required_classes(&self, _t: Tier) -> Vec<&'static str> {
        vec!["dim:1", "dim:2", "valid", "violations:1", "violations:>=2", "viol:rank", "viol:length", "viol:axis-len", "viol:order", "viol:bounds-shape", "viol:periodic-ends", "axis:nan", "viol:y-only", "rank:dynamic-too-small", "strat:custom"]
    }
}

#[derive(Clone, Copy, Debug, PartialEq)]
enum Order {
    Increasing,
    Tie,
    Swap,
    NaN,
    Decreasing,
    InfEnd,
}

/// explicit axis of length `len` with the order pattern; returns the values
fn make_axis<T: Flt>(src: &mut Src, len: usize, ord: Order) -> Vec<T> {
    let mut v: Vec<T> = Vec::new();
    let h = T::of(2f64.powi(src.int_in(-4, 4) as i32));
    let mut cur = T::of((src.unit() - 0.5) * 8.0);
    // 1 of 4 explicit axes is the index axis 0, 1, .., len-1 itself (any irregularity then sits between ends that look
    // exactly like the default axis)
    let index_like = src.chance(1, 4);
    for i in 0..len {
        v.push(if index_like { T::of(i as f64) } else { cur });
        cur = cur + h * T::of(1.0 + src.below(3) as f64);
    }
    // keep the ends in place for the interior irregularities of an index-like axis
    let interior = index_like && len >= 3;
    if len == 0 {
        return v;
    }
    let pos = if interior { 1 + src.below(len as u64 - 2) as usize } else { src.below(len as u64) as usize };
    match ord {
        Order::Increasing => {}
        Order::Tie => {
            if len >= 2 {
                let p = pos.max(1);
                v[p] = v[p - 1];
            }
        }
        Order::Swap => {
            if interior && len >= 4 {
                let p = pos.clamp(2, len - 2);
                v.swap(p, p - 1);
            } else if len >= 2 {
                let p = pos.max(1);
                v.swap(p, p - 1);
            }
        }
        Order::NaN => v[pos] = T::nan(),
        Order::Decreasing => v.reverse(),
        Order::InfEnd => {
            if src.bool() {
                v[0] = T::neg_infinity();
            } else {
                v[len - 1] = T::infinity();
            }
        }
    }
    v
}

fn pick_order(src: &mut Src) -> Order {
    [Order::Increasing, Order::Increasing, Order::Increasing, Order::Tie, Order::Swap, Order::NaN, Order::Decreasing, Order::InfEnd][src.below(8) as usize]
}

fn strictly_increasing<T: Flt>(v: &[T]) -> bool {
    classify(v) == Mono::Rising(true)
}

/// (values or None for the default axis, is the "axis length" requirement violated, is the "order" requirement violated)
fn gen_axis<T: Flt>(src: &mut Src, obs: &mut Obs, n: usize) -> (Option<Vec<T>>, bool, bool) {
    if src.chance(1, 4) {
        // default index axis 0..n: always the right length; strictly increasing iff n >= 2
        let idx: Vec<T> = (0..n).map(|i| T::of(i as f64)).collect();
        return (None, false, !strictly_increasing(&idx));
    }
    let len = match src.below(8) {
        0 => n.saturating_sub(1),
        1 => n + 1,
        2 => 0,
        3 => 1,
        _ => n,
    };
    let ord = pick_order(src);
    let v = make_axis::<T>(src, len, ord);
    if v.iter().any(|x| x.is_nan()) {
        obs.class("axis:nan");
    }
    let bad_len = len != n;
    let bad_ord = !strictly_increasing(&v);
    (Some(v), bad_len, bad_ord)
}

/// long axes (up to 20 000 knots) that are valid or carry exactly one irregularity - at a random position, near the end,
/// or on the pair that straddles a multiple of a power of two (block seams of chunked scans)
fn run_long<T: Flt>(src: &mut Src, obs: &mut Obs) -> Result<(), Fail> {
    obs.class("dim:1");
    obs.class("axis:long");
    let n = match src.below(3) {
        0 => src.usize_in(100, 1000),
        1 => src.usize_in(1001, 5000),
        _ => src.usize_in(5001, if T::MANT == 53 { 20_000 } else { 12_000 }),
    };
    let mut x: Vec<T> = (0..n).map(|i| T::of(i as f64 * 0.5 - 7.0)).collect();
    let kind = src.below(4);
    let pos = match src.below(4) {
        0 => n - 1 - src.below((n as u64 / 50).max(1)) as usize,
        1 | 2 => {
            let b = 1usize << src.usize_in(2, 13);
            let m = (n - 1) / b;
            if m >= 1 {
                obs.class("axis:irregularity-at-block-seam");
                b * src.usize_in(1, m)
            } else {
                src.usize_in(1, n - 1)
            }
        }
        _ => src.usize_in(1, n - 1),
    }
    .clamp(1, n - 1);
    match kind {
        0 => {}
        1 => x[pos] = x[pos - 1],
        2 => x.swap(pos, pos - 1),
        _ => x[pos] = T::nan(),
    }
    let viol = ["valid", "viol:order", "viol:order", "viol:order"][kind as usize];
    obs.class(viol);
    obs.class(["long:valid", "long:tie", "long:swap", "long:nan"][kind as usize]);
    let two_d = src.chance(1, 3);
    let strided = src.bool();
    let spline = !two_d && src.chance(1, 3);
    // the axis contiguous, or every second element of a larger array
    let xa: ndarray::Array1<T> = if strided { crate::layout::realise1(ndarray::Array1::from_vec(x.clone()), (crate::layout::Layout::Strided, src.next()), T::of(-9.0e9)) } else { ndarray::Array1::from_vec(x.clone()) };
    let desc = format!("T={} long axis n={n}, {} at {pos}, {} axis, {}", T::NAME, ["no irregularity", "tie", "swapped pair", "NaN"][kind as usize], if strided { "non-contiguous" } else { "contiguous" },
        if two_d { "Bilinear (as y axis)" } else if spline { "CubicSpline" } else { "Linear" });
    let res = catch(|| -> Result<(), ndarray_interp::BuilderError> {
        if two_d {
            let d = ArrayD::from_elem(IxDyn(&[2, n]), T::one());
            build2::<T>(None, Some(xa), d, DDim::S2, false).unwrap().map(|_| ())
        } else {
            let d = ArrayD::from_elem(IxDyn(&[n]), T::one());
            let st = if spline { Strat1::Spline { extrapolate: false, bc: Bc::Natural } } else { Strat1::Linear { extrapolate: false } };
            build1::<T>(Some(xa), d, DDim::S1, &st).unwrap().map(|_| ())
        }
    });
    obs.asserts += 1;
    match res {
        Err(p) => fail!(format!("panic/long/{viol}"), "build panicked: {p}; {desc}"),
        Ok(Ok(())) if kind != 0 => fail!("invalid-accepted/viol:order/long-axis", "build() returned an interpolator although the axis is not strictly increasing; {desc}"),
        Ok(Err(e)) if kind == 0 => fail!("valid-rejected/long-axis", "build() rejected a valid long axis with {e:?}; {desc}"),
        Ok(Err(e)) if BKind::of(&e) != BKind::Monotonic => fail!(format!("wrong-error-kind/{:?}", BKind::of(&e)), "build() returned {e:?} for an axis that is not strictly increasing; {desc}"),
        _ => {}
    }
    obs.nontrivial = kind != 0;
    obs.key(&desc);
    obs.describe(|| json!({"case": desc}));
    Ok(())
}

fn run1<T: Flt>(src: &mut Src, obs: &mut Obs) -> Result<(), Fail> {
    obs.class("dim:1");
    // strategy
    #[derive(Debug)]
    enum S {
        Linear,
        Spline,
        Custom(usize),
    }
    let strat = match src.below(5) {
        0 => S::Linear,
        1 | 2 => S::Spline,
        _ => S::Custom(src.usize_in(0, 4)),
    };
    let min = match strat {
        S::Linear => 2,
        S::Spline => 3,
        S::Custom(m) => m,
    };
    // data rank / dimension type
    let dynamic = src.chance(1, 3);
    let rank = if dynamic { [0usize, 1, 1, 2, 3, 4][src.below(6) as usize] } else { src.usize_in(1, 4) };
    let dd = if dynamic { DDim::Dyn } else { DDim::of_rank(rank) };
    let n = match src.below(8) {
        0 => src.usize_in(min + 3, 9),
        _ => src.usize_in(0, min + 2),
    };
    let mut shape = Vec::new();
    if rank >= 1 {
        shape.push(n);
        for _ in 1..rank {
            shape.push(src.pick(&[1usize, 2, 3, 0]));
        }
    }
    let trailing: Vec<usize> = shape.iter().skip(1).cloned().collect();
    let lanes = product(&trailing);
    let total = product(&shape);
    let mut data: Vec<T> = (0..total).map(|_| T::of(value::<T>(src, ValClass::Dyadic, 0))).collect();
    let (xv, bad_len, bad_ord) = gen_axis::<T>(src, obs, if rank >= 1 { n } else { 0 });

    let mut viol: Vec<(&str, BKind)> = Vec::new();
    if rank < 1 {
        viol.push(("viol:rank", BKind::ShapeError));
        obs.class("rank:dynamic-too-small");
    } else if n < min {
        viol.push(("viol:length", BKind::NotEnoughData));
    }
    if rank >= 1 && bad_len {
        viol.push(("viol:axis-len", BKind::ShapeError));
    }
    if rank >= 1 && bad_ord {
        viol.push(("viol:order", BKind::Monotonic));
    }
    // strategy specific inputs
    let log: Log = Arc::new(Mutex::new(Vec::new()));
    let mut bc: Option<Bc<T>> = None;
    if let S::Spline = strat {
        match src.below(6) {
            0 => bc = Some(Bc::NotAKnot),
            1 => bc = Some(Bc::Natural),
            2 => bc = Some(Bc::Clamped),
            3 => {
                bc = Some(Bc::Periodic);
                if rank >= 1 && n >= 1 && lanes > 0 {
                    // equal ends, then maybe break one lane
                    for l in 0..lanes {
                        data[(n - 1) * lanes + l] = data[l];
                    }
                    match src.below(4) {
                        0 => {
                            let l = src.below(lanes as u64) as usize;
                            if n >= 2 {
                                data[(n - 1) * lanes + l] = data[l] + T::one();
                                viol.push(("viol:periodic-ends", BKind::ValueError));
                            }
                        }
                        1 => {
                            let l = src.below(lanes as u64) as usize;
                            data[l] = T::nan();
                            data[(n - 1) * lanes + l] = T::nan();
                            viol.push(("viol:periodic-ends", BKind::ValueError));
                        }
                        _ => {}
                    }
                }
            }
            _ => {
                // Individual: shape ok / wrong
                let mut bshape: Vec<usize> = vec![1];
                bshape.extend_from_slice(&trailing);
                let mut bad = false;
                match src.below(6) {
                    0 => {
                        bshape[0] = src.pick(&[0usize, 2, n.max(2)]);
                        bad = bshape[0] != 1;
                    }
                    1 if !trailing.is_empty() => {
                        let k = 1 + src.below(trailing.len() as u64) as usize;
                        bshape[k] += 1;
                        bad = true;
                    }
                    // the right number of rows spread wrongly over the trailing axes (transposed / regrouped)
                    3 | 4 if trailing.len() >= 2 => {
                        if src.bool() {
                            bshape[1..].reverse();
                        } else {
                            let cnt: usize = trailing.iter().product();
                            bshape = vec![1; 1 + trailing.len()];
                            bshape[1] = cnt;
                        }
                        bad = bshape[1..] != trailing[..];
                        if bad {
                            obs.class("viol:bounds-shape/same-count");
                        }
                    }
                    2 if dynamic => {
                        if src.bool() {
                            bshape.push(1);
                        } else if bshape.len() > 1 {
                            bshape.pop();
                        } else {
                            bshape.push(2);
                        }
                        bad = true;
                    }
                    _ => {}
                }
                if rank < 1 {
                    // rank-0 data: any boundary array is irrelevant, rank already violated
                    bshape = vec![1];
                    bad = false;
                }
                if bad {
                    viol.push(("viol:bounds-shape", BKind::ShapeError));
                }
                let cnt = product(&bshape);
                let rows: Vec<RowBoundary<T>> = (0..cnt).map(|_| lane_sel::<T>(src, 0, 1.0).row::<T>()).collect();
                bc = Some(Bc::Individual(ArrayD::from_shape_vec(IxDyn(&bshape), rows).unwrap()));
            }
        }
    }
    for (name, _) in &viol {
        obs.class(*name);
    }
    obs.class(match viol.len() {
        0 => "valid",
        1 => "violations:1",
        _ => "violations:>=2",
    });
    obs.class(match strat {
        S::Linear => "strat:Linear",
        S::Spline => "strat:Spline",
        S::Custom(_) => "strat:custom",
    });
    obs.class(format!("ddim:{}", dd.name()));
    // the memory layout of the data is varied as well (validation must not depend on it)
    let dlay = crate::layout::pick_lay(src);
    obs.class(format!("datalayout:{}", dlay.0.name()));
    let darr = crate::layout::realise(ArrayD::from_shape_vec(IxDyn(&shape), data.clone()).unwrap(), dlay, T::of(-77.0));
    let xo = xv.as_ref().map(|v| ndarray::Array1::from_vec(v.clone()));
    let desc = format!("T={} strategy={strat:?} data {}{:?} x={:?} boundary={}", T::NAME, dd.name(), shape, xv.as_ref().map(|v| v.iter().map(|t| t.f()).collect::<Vec<_>>()),
        match &bc { Some(Bc::Individual(a)) => format!("Individual{:?}", a.shape()), Some(b) => format!("{b:?}"), None => "-".into() });
    let res = catch(|| match &strat {
        S::Linear => build1::<T>(xo, darr, dd, &Strat1::Linear { extrapolate: false }),
        S::Spline => build1::<T>(xo, darr, dd, &Strat1::Spline { extrapolate: false, bc: bc.clone().unwrap() }),
        S::Custom(m) => build1_rec::<T>(xo, darr, dd, *m, log.clone(), None, None),
    });
    obs.asserts += 1;
    let kinds: Vec<BKind> = viol.iter().map(|v| v.1).collect();
    match res {
        Err(p) => fail!(format!("panic/{}", viol.first().map(|v| v.0).unwrap_or("valid")), "constructing/building panicked: {p}; {desc}; violated: {:?}", viol),
        Ok(None) => fail!("oracle-bug", "case not expressible: {desc}"),
        Ok(Some(Ok(_))) => {
            if !viol.is_empty() {
                fail!(format!("invalid-accepted/{}", viol[0].0), "build() returned an interpolator for invalid input; {desc}; violated: {:?}", viol);
            }
        }
        Ok(Some(Err(e))) => {
            if viol.is_empty() {
                fail!("valid-rejected", "build() rejected valid input with {e:?}; {desc}");
            }
            let k = BKind::of(&e);
            if !kinds.contains(&k) {
                fail!(format!("wrong-error-kind/{k:?}"), "build() returned {e:?}, but the violated requirements are {:?}; {desc}", viol);
            }
        }
    }
    if let S::Custom(_) = strat {
        let built = log.lock().unwrap().iter().any(|c| matches!(c, Call::Build { .. }));
        obs.asserts += 1;
        if built && !viol.is_empty() {
            fail!("custom-build-on-invalid", "the custom strategy's build() was invoked although the input violates {:?}; {desc}", viol);
        }
    }
    obs.nontrivial = !viol.is_empty();
    if obs.nontrivial {
        obs.key(&desc);
    }
    obs.describe(|| json!({"case": desc, "violated": viol.iter().map(|v| v.0).collect::<Vec<_>>()}));
    Ok(())
}

fn run2<T: Flt>(src: &mut Src, obs: &mut Obs) -> Result<(), Fail> {
    obs.class("dim:2");
    let custom = if src.chance(1, 2) { Some(src.usize_in(0, 4)) } else { None };
    let min = custom.unwrap_or(2);
    let dynamic = src.chance(1, 3);
    let rank = if dynamic { [0usize, 1, 2, 2, 3, 4][src.below(6) as usize] } else { src.usize_in(2, 4) };
    let dd = if dynamic { DDim::Dyn } else { DDim::of_rank(rank) };
    let len = |src: &mut Src| if src.chance(1, 8) { src.usize_in(min + 3, 7) } else { src.usize_in(0, min + 2) };
    let (nx, ny) = (len(src), len(src));
    let mut shape = Vec::new();
    if rank >= 1 {
        shape.push(nx);
    }
    if rank >= 2 {
        shape.push(ny);
    }
    for _ in 2..rank {
        shape.push(src.pick(&[1usize, 2, 3, 0]));
    }
    let total = product(&shape);
    let data: Vec<T> = (0..total).map(|_| T::of(value::<T>(src, ValClass::Dyadic, 0))).collect();
    let (xv, bad_xlen, bad_xord) = gen_axis::<T>(src, obs, if rank >= 1 { nx } else { 0 });
    let (mut yv, mut bad_ylen, mut bad_yord) = gen_axis::<T>(src, obs, if rank >= 2 { ny } else { 0 });
    // x and y as two views of one allocation (same first element, same length, other stride); y valid or not
    let mut aliased = None;
    if let Some(x) = &xv {
        if rank >= 2 && nx == ny && x.len() == nx && nx >= 2 && src.chance(1, 5) {
            let ok = src.bool();
            let y = related_axis::<T>(src, x, ok);
            bad_ylen = false;
            bad_yord = !strictly_increasing(&y);
            aliased = alias_axes::<T>(x, &y);
            if aliased.is_some() {
                obs.class("axes:aliasing-views");
            }
            yv = Some(y);
        }
    }
    let mut viol: Vec<(&str, BKind)> = Vec::new();
    if rank < 2 {
        viol.push(("viol:rank", BKind::ShapeError));
        obs.class("rank:dynamic-too-small");
    } else {
        if nx < min || ny < min {
            viol.push(("viol:length", BKind::NotEnoughData));
        }
        if bad_xlen || bad_ylen {
            viol.push(("viol:axis-len", BKind::ShapeError));
        }
        if bad_xord || bad_yord {
            viol.push(("viol:order", BKind::Monotonic));
        }
        if (bad_ylen || bad_yord || ny < min) && !(bad_xlen || bad_xord || nx < min) {
            obs.class("viol:y-only");
        }
    }
    for (name, _) in &viol {
        obs.class(*name);
    }
    obs.class(match viol.len() {
        0 => "valid",
        1 => "violations:1",
        _ => "violations:>=2",
    });
    obs.class(if custom.is_some() { "strat:custom" } else { "strat:Bilinear" });
    let log: Log = Arc::new(Mutex::new(Vec::new()));
    let dlay = crate::layout::pick_lay(src);
    let darr = crate::layout::realise(ArrayD::from_shape_vec(IxDyn(&shape), data).unwrap(), dlay, T::of(-77.0));
    let xo = xv.as_ref().map(|v| ndarray::Array1::from_vec(v.clone()));
    let yo = yv.as_ref().map(|v| ndarray::Array1::from_vec(v.clone()));
    let desc = format!("T={} 2-D strategy={} data {}{:?} x={:?} y={:?}", T::NAME, custom.map(|m| format!("custom(min {m})")).unwrap_or("Bilinear".into()), dd.name(), shape,
        xv.as_ref().map(|v| v.iter().map(|t| t.f()).collect::<Vec<_>>()), yv.as_ref().map(|v| v.iter().map(|t| t.f()).collect::<Vec<_>>()));
    let res = catch(|| match (custom, aliased) {
        (None, Some((xa, ya))) => build2_any::<T, ndarray::OwnedArcRepr<T>>(Some(xa), Some(ya), darr, dd, false),
        (Some(m), Some((xa, ya))) => build2_rec_any::<T, ndarray::OwnedArcRepr<T>>(Some(xa), Some(ya), darr, dd, m, log.clone(), None, None),
        (None, None) => build2::<T>(xo, yo, darr, dd, false),
        (Some(m), None) => build2_rec::<T>(xo, yo, darr, dd, m, log.clone(), None, None),
    });
    obs.asserts += 1;
    let kinds: Vec<BKind> = viol.iter().map(|v| v.1).collect();
    match res {
        Err(p) => fail!(format!("panic/2d/{}", viol.first().map(|v| v.0).unwrap_or("valid")), "constructing/building panicked: {p}; {desc}; violated: {:?}", viol),
        Ok(None) => {
            // static rank < 2 is not expressible for Interp2D: not a case
            return Ok(());
        }
        Ok(Some(Ok(_))) => {
            if !viol.is_empty() {
                fail!(format!("invalid-accepted/2d/{}", viol[0].0), "build() returned an interpolator for invalid input; {desc}; violated: {:?}", viol);
            }
        }
        Ok(Some(Err(e))) => {
            if viol.is_empty() {
                fail!("valid-rejected/2d", "build() rejected valid input with {e:?}; {desc}");
            }
            let k = BKind::of(&e);
            if !kinds.contains(&k) {
                fail!(format!("wrong-error-kind/2d/{k:?}"), "build() returned {e:?}, but the violated requirements are {:?}; {desc}", viol);
            }
        }
    }
    if custom.is_some() {
        let built = log.lock().unwrap().iter().any(|c| matches!(c, Call::Build { .. }));
        obs.asserts += 1;
        if built && !viol.is_empty() {
            fail!("custom-build-on-invalid/2d", "the custom strategy's build() was invoked although the input violates {:?}; {desc}", viol);
        }
    }
    obs.nontrivial = !viol.is_empty();
    if obs.nontrivial {
        obs.key(&desc);
    }
    obs.describe(|| json!({"case": desc, "violated": viol.iter().map(|v| v.0).collect::<Vec<_>>()}));
    Ok(())
}
