//! C15 - results are independent of the units of the axis and linear in the data.

use super::c03::k_const;
use super::c04::{eval2, query2, Grid, ULPS2};
use super::c06::outside;
use super::*;
use crate::adapt::*;
use crate::common::*;
use crate::fail;
use crate::gen::*;
use crate::gen1d::*;
use crate::oracle::*;
use crate::splinegen::*;

pub struct C15;

impl Check for C15 {
    fn id(&self) -> &'static str {
        "C15"
    }
    fn entropy_len(&self) -> usize {
        800
    }
    fn cases(&self, tier: Tier) -> u64 {
        tier.pick(40_000, 1_500_000)
    }
    fn run_case(&self, src: &mut Src, obs: &mut Obs) -> Result<(), Fail> {
        let two_d = src.chance(1, 4);
        match (two_d, src.chance(1, 5)) {
            (false, false) => run1::<f64>(src, obs),
            (false, true) => run1::<f32>(src, obs),
            (true, false) => run2::<f64>(src, obs),
            (true, true) => run2::<f32>(src, obs),
        }
    }
    fn regressions(&self) -> Vec<(&'static str, fn() -> Result<(), Fail>)> {
        vec![("d5-pow-not-scale-invariant", super::regress::d5_pow_not_scale_invariant)]
    }
    fn rule(&self) -> String {
        "metamorphic twins of the same concrete type for every strategy and boundary selection, in range and extrapolated: (a) data (and \
         FirstDeriv/SecondDeriv values) x 2^k, k in -20..20: results x 2^k bit-for-bit; (b) data negated: results negated bit-for-bit; (c) axis \
         and queries x 2^k with FirstDeriv x 2^-k, SecondDeriv x 2^-2k: results unchanged bit-for-bit; (d) axis and queries shifted on a common \
         dyadic grid (all sums and differences exact): unchanged bit-for-bit; (e) data x c for c in {3, 0.1, random}: results x c up to rounding; \
         (f) axis and queries x c for small odd c with exact products: unchanged up to rounding; (g) superposition of two data sets (dyadic values, \
         exact sums, boundary values added): sum of the results up to rounding. 2-D: independent factors for x and y. Allowances of DESIGN 3.4 \
         (sum of the allowances of the runs involved). Non-trivial: non-uniform axis and factor != 1."
            .into()
    }
    fn assumptions(&self) -> Vec<String> {
        let mut v = super::c03::spline_assumptions();
        v.push("power-of-two scaling keeps every quantity inside the exponent window (no overflow / subnormals), so it is exact".into());
        v
    }
    fn required_classes(&self, _t: Tier) -> Vec<&'static str> {
        vec!["dim:1", "dim:2", "rel:data-pow2", "rel:data-negate", "rel:axis-pow2", "rel:grid-shift", "rel:data-times-c", "rel:axis-times-odd", "rel:superposition", "strat:Linear", "strat:Spline/Individual", "strat:Spline/Periodic", "queries:extrapolated"]
    }
}

fn scale_end(e: &EndSel, f1: f64, f2: f64) -> EndSel {
    match e {
        EndSel::First(v) => EndSel::First(v * f1),
        EndSel::Second(v) => EndSel::Second(v * f2),
        o => o.clone(),
    }
}

/// apply factors to the derivative values of a boundary selection
fn scale_bc(bc: &BcSel, f1: f64, f2: f64) -> BcSel {
    match bc {
        BcSel::Individual(v) => BcSel::Individual(
            v.iter()
                .map(|l| match l {
                    LaneSel::Mixed(a, b) => LaneSel::Mixed(scale_end(a, f1, f2), scale_end(b, f1, f2)),
                    o => o.clone(),
                })
                .collect(),
        ),
        o => o.clone(),
    }
}

fn scale_strat(s: &StratSel, f1: f64, f2: f64) -> StratSel {
    match s {
        StratSel::Linear => StratSel::Linear,
        StratSel::Spline(b) => StratSel::Spline(scale_bc(b, f1, f2)),
    }
}

/// per-lane scale of a case: None for Linear, Some(max sigma) for splines (one exact solve per lane)
fn lane_scales(c: &Case1) -> Result<Vec<Option<f64>>, Fail> {
    (0..c.lanes)
        .map(|l| match &c.strat {
            StratSel::Linear => Ok(None),
            StratSel::Spline(bc) => {
                let sp = Spline::solve(&c.x, &c.lane_data(l), &bc.bounds(l)).map_err(|e| Fail::new("oracle-bug", e))?;
                Ok(Some((0..c.n - 1).map(|j| sp.sigma(j)).fold(0f64, f64::max)))
            }
        })
        .collect()
}

/// value allowance of one run at query q (per lane), from the exact oracle / the bracket
fn allowance<T: Flt>(c: &Case1, sc: &[Option<f64>], l: usize, q: f64) -> f64 {
    let i = bracket(&c.x, q);
    let t = (q - c.x[i]) / (c.x[i + 1] - c.x[i]);
    (match sc[l] {
        None => {
            let (y1, y2) = (c.data[i * c.lanes + l].abs(), c.data[(i + 1) * c.lanes + l].abs());
            super::c01::ULPS * 2.0 * T::U * (y1 + t.abs() * (y1 + y2)).max(y1.max(y2))
        }
        Some(smax) => {
            let periodic = matches!(&c.strat, StratSel::Spline(b) if b.is_periodic());
            let tt = if periodic { t.clamp(0.0, 1.0) } else { t };
            k_const::<T>() * T::U * smax * growth(tt)
        }
    }) + T::TINY
}

fn run1<T: Flt>(src: &mut Src, obs: &mut Obs) -> Result<(), Fail> {
    obs.class("dim:1");
    obs.class(format!("T:{}", T::NAME));
    let rel = src.below(7);
    let reln = ["rel:data-pow2", "rel:data-negate", "rel:axis-pow2", "rel:grid-shift", "rel:data-times-c", "rel:axis-times-odd", "rel:superposition"][rel as usize];
    obs.class(reln);
    let o = Opts1 { max_lanes: 4, spline: SplineOpts { max_n: 14, ..Default::default() }, ..Opts1::default() };
    let mut c = Case1::gen::<T>(src, &o);
    // relations on the axis need an explicit axis; shifts / odd factors need a dyadic one with small integers
    if matches!(rel, 2) && c.axis_class == AxisClass::Index {
        c.axis_class = AxisClass::Unit;
    }
    if matches!(rel, 3 | 5) {
        c.axis_class = AxisClass::Dyadic;
        let g = src.int_in(-4, 6) as i32;
        let mut cur = src.int_in(-40, 40);
        c.x = (0..c.n)
            .map(|_| {
                let v = cur as f64 * 2f64.powi(-g);
                cur += 1 + src.below(16) as i64;
                v
            })
            .collect();
        // derivative values tied to the new spacing are not needed: keep the generated ones
    }
    if rel == 6 {
        // dyadic data with few bits so that sums are exact
        for v in c.data.iter_mut() {
            *v = (src.int_in(-2000, 2000) as f64) / 16.0;
        }
        if let StratSel::Spline(b) = &c.strat {
            if b.is_periodic() {
                for l in 0..c.lanes {
                    c.data[(c.n - 1) * c.lanes + l] = c.data[l];
                }
            }
            c.strat = StratSel::Spline(match b {
                BcSel::Individual(v) => BcSel::Individual(
                    v.iter()
                        .map(|ls| match ls {
                            LaneSel::Mixed(a, bb) => {
                                let mut r = |e: &EndSel| match e {
                                    EndSel::First(_) => EndSel::First(src.int_in(-200, 200) as f64 / 8.0),
                                    EndSel::Second(_) => EndSel::Second(src.int_in(-200, 200) as f64 / 8.0),
                                    o => o.clone(),
                                };
                                let (x, y) = (r(a), r(bb));
                                LaneSel::Mixed(x, y)
                            }
                            o => o.clone(),
                        })
                        .collect(),
                ),
                o => o.clone(),
            });
        }
    }
    c.classes(obs);
    let extrap = src.chance(1, 2);
    let n = c.n;
    // queries
    let nq = src.usize_in(6, 14);
    let mut qs: Vec<f64> = Vec::new();
    for _ in 0..nq {
        if matches!(rel, 3 | 5) {
            // on the grid (quarter points of the knot grid), possibly outside
            let step = (c.x[n - 1] - c.x[0]) / (n - 1) as f64;
            let _ = step;
            let i = src.below(n as u64 - 1) as usize;
            let q = c.x[i] + (c.x[i + 1] - c.x[i]) * src.pick(&[0.0, 0.25, 0.5, 0.75, 1.0]);
            let q = if extrap && src.chance(1, 4) { if src.bool() { c.x[0] - (c.x[1] - c.x[0]) * src.below(9) as f64 * 0.25 } else { c.x[n - 1] + (c.x[n - 1] - c.x[n - 2]) * src.below(9) as f64 * 0.25 } } else { q };
            qs.push(T::of(q).f());
        } else if extrap && src.chance(1, 3) {
            qs.push(outside::<T>(src, &c.x).0.clamp(c.x[0] - 16.0 * (c.x[n - 1] - c.x[0]), c.x[n - 1] + 16.0 * (c.x[n - 1] - c.x[0])));
        } else {
            qs.push(query_in_range::<T>(src, &c.x).0);
        }
    }
    // exact power-of-two relations presuppose that no intermediate is subnormal: a query within
    // a subnormal distance of its bracket knot (e.g. the float next to a knot at 0) is moved onto the knot
    let thr = sub_thr::<T>();
    for q in qs.iter_mut() {
        let i = bracket(&c.x, *q);
        for kn in [c.x[i], c.x[i + 1]] {
            let d = (*q - kn).abs();
            if d > 0.0 && d < thr {
                *q = kn;
            }
        }
    }
    if qs.iter().any(|&q| q < c.x[0] || q > c.x[n - 1]) {
        obs.class("queries:extrapolated");
    }
    let ep = pick_ep(src, c.dd == DDim::S1);
    // build the twin and the expected relation
    let mut t = c.clone();
    let mut qt = qs.clone();
    // result' ?= fac * result (+ other)
    let mut fac = 1.0f64;
    let mut exact = true;
    let mut factor_is_one = false;
    let mut other: Option<Case1> = None;
    match rel {
        0 => {
            let k = src.int_in(-20, 20) as i32;
            fac = 2f64.powi(k);
            factor_is_one = k == 0;
            for v in t.data.iter_mut() {
                *v *= fac;
            }
            t.strat = scale_strat(&c.strat, fac, fac);
        }
        1 => {
            fac = -1.0;
            for v in t.data.iter_mut() {
                *v = -*v;
            }
            t.strat = scale_strat(&c.strat, -1.0, -1.0);
        }
        2 => {
            let k = src.int_in(-20, 20) as i32;
            let f = 2f64.powi(k);
            factor_is_one = k == 0;
            for v in t.x.iter_mut() {
                *v *= f;
            }
            for v in qt.iter_mut() {
                *v *= f;
            }
            t.strat = scale_strat(&c.strat, 1.0 / f, 1.0 / (f * f));
        }
        3 => {
            // shift by an integer multiple of the grid step (all sums exact)
            // any magnitude up to 2^44 grid steps (f32: 2^12): offsets of 10^12 interval widths and more; whether a shift is
            // exactly representable is checked below
            let lim: i64 = 1i64 << src.int_in(1, if T::MANT == 53 { 44 } else { 12 });
            let ulp_grid = c.x.iter().chain(qs.iter()).filter(|v| **v != 0.0).map(|v| {
                let (m, e) = frexp_exp(*v);
                let _ = m;
                e
            }).min().unwrap_or(0);
            let _ = ulp_grid;
            // grid step: 2^-(g+2) >= quarter of the knot grid; use the smallest power of two dividing all values
            let gstep = grid_step(&c.x, &qs);
            let s = src.int_in(-lim, lim) as f64 * gstep * 4.0;
            factor_is_one = s == 0.0;
            for v in t.x.iter_mut() {
                *v += s;
            }
            for v in qt.iter_mut() {
                *v += s;
            }
            // all sums must be exact in T, otherwise this is not an exactly representable change
            let ok = c.x.iter().zip(&t.x).chain(qs.iter().zip(&qt)).all(|(a, b)| T::of(*b).f() == *b && (*b - *a) == s && T::of(*b - s).f() == *a);
            if !ok {
                obs.class("shift-not-exact-skipped");
                return Ok(());
            }
        }
        4 => {
            let cfac = match src.below(3) {
                0 => 3.0,
                1 => 0.1,
                _ => T::of(0.5 + src.unit() * 7.0).f(),
            };
            fac = T::of(cfac).f();
            exact = false;
            for v in t.data.iter_mut() {
                *v = T::of(*v * fac).f();
            }
            // periodic: keep ends equal after rounding (they are: same input, same rounding)
            t.strat = match &c.strat {
                StratSel::Spline(b) => StratSel::Spline(map_bc(b, |v| T::of(v * fac).f(), |v| T::of(v * fac).f())),
                o => o.clone(),
            };
        }
        5 => {
            let cf = src.pick(&[3.0, 5.0, 7.0]);
            exact = false;
            for v in t.x.iter_mut() {
                *v *= cf;
            }
            for v in qt.iter_mut() {
                *v *= cf;
            }
            let ok = t.x.iter().chain(qt.iter()).all(|v| T::of(*v).f() == *v);
            if !ok {
                return Ok(());
            }
            t.strat = match &c.strat {
                StratSel::Spline(b) => StratSel::Spline(map_bc(b, |v| T::of(v / cf).f(), |v| T::of(v / (cf * cf)).f())),
                o => o.clone(),
            };
            // the converted boundary values are rounded: that is part of "up to rounding"
        }
        _ => {
            // superposition: second data set, twin = sum
            exact = false;
            let mut c2 = c.clone();
            for v in c2.data.iter_mut() {
                *v = (src.int_in(-2000, 2000) as f64) / 16.0;
            }
            if let StratSel::Spline(b) = &c.strat {
                if b.is_periodic() {
                    for l in 0..c.lanes {
                        c2.data[(n - 1) * c.lanes + l] = c2.data[l];
                    }
                }
                c2.strat = StratSel::Spline(map_bc(b, |_| src_free(1), |_| src_free(2)));
            }
            for (i, v) in t.data.iter_mut().enumerate() {
                *v = c.data[i] + c2.data[i];
            }
            if let (StratSel::Spline(b1), StratSel::Spline(b2)) = (&c.strat, &c2.strat) {
                t.strat = StratSel::Spline(add_bc(b1, b2));
            }
            other = Some(c2);
        }
    }
    let ia = c.build::<T>(extrap)?;
    let ib = match catch(|| t.build::<T>(extrap)) {
        Ok(r) => r?,
        Err(p) => fail!("panic", "twin build panicked: {p}"),
    };
    // in-range status must be identical for the exact relations (non-extrapolating twins would otherwise differ)
    let qsa: Vec<f64> = if extrap { qs.clone() } else { qs.iter().map(|&q| q.clamp(c.x[0], c.x[n - 1])).collect() };
    let qsb: Vec<f64> = if extrap { qt.clone() } else { qt.iter().map(|&q| q.clamp(t.x[0], t.x[n - 1])).collect() };
    let ra = eval1::<T>(ia.as_ref(), &qsa, ep, c.lanes, &c.trailing)?;
    let rb = eval1::<T>(ib.as_ref(), &qsb, ep, c.lanes, &c.trailing)?;
    let ro = match &other {
        Some(c2) => {
            let io = c2.build::<T>(extrap)?;
            Some(eval1::<T>(io.as_ref(), &qsa, ep, c.lanes, &c.trailing)?)
        }
        None => None,
    };
    obs.describe(|| {
        let mut d = c.describe::<T>();
        d["relation"] = json!(reln);
        d["factor"] = json!(fac);
        d["queries"] = ffs::<T>(&qs, 4);
        d
    });
    let (sc_a, sc_b, sc_o) = if exact {
        (vec![], vec![], vec![])
    } else {
        (lane_scales(&c)?, lane_scales(&t)?, match &other {
            Some(c2) => lane_scales(c2)?,
            None => vec![],
        })
    };
    for k in 0..nq {
        for l in 0..c.lanes {
            let a = ra[k][l].f();
            let b = rb[k][l].f();
            obs.asserts += 1;
            if exact {
                let want = a * fac;
                if (want != 0.0 && want.abs() < sub_thr::<T>()) || (a != 0.0 && a.abs() < sub_thr::<T>()) {
                    obs.count("near-subnormal results skipped", 1);
                    continue;
                }
                let same = T::of(want).key() == T::of(b).key() || (want == 0.0 && b == 0.0);
                if !same {
                    fail!(format!("exact-relation/{reln}/{}", c.strat.name()), "T={} {} lane {l}: {reln}: q={:e}: original {a:e}, transformed problem {b:e}, expected exactly {want:e}; x={:?} -> {:?}", T::NAME, c.strat.name(), qsa[k], c.x, t.x);
                }
            } else {
                let al_a = allowance::<T>(&c, &sc_a, l, qsa[k]);
                let al_b = allowance::<T>(&t, &sc_b, l, qsb[k]);
                let (want, tol) = match (&ro, &other) {
                    (Some(ro), Some(c2)) => (a + ro[k][l].f(), al_a + allowance::<T>(c2, &sc_o, l, qsa[k]) + al_b),
                    _ => (a * fac, fac.abs() * al_a + al_b + 4.0 * T::U * (a * fac).abs()),
                };
                let d = (b - want).abs();
                obs.err_l(reln, if tol > 0.0 { d / tol } else { 0.0 });
                if !(d <= tol) {
                    fail!(format!("approx-relation/{reln}/{}", c.strat.name()), "T={} {} lane {l}: {reln}: q={:e}: transformed problem gives {b:e}, expected {want:e} up to rounding (allowance {tol:.3e})", T::NAME, c.strat.name(), qsa[k]);
                }
            }
        }
    }
    obs.nontrivial = !is_uniform(&c.x) && !factor_is_one;
    if obs.nontrivial {
        c.key(obs);
        obs.key(&(rel, fac.to_bits()));
        obs.key_f64s(&qt);
    }
    Ok(())
}

/// magnitudes below this are too close to the subnormal range for exact scaling arguments
fn sub_thr<T: Flt>() -> f64 {
    if T::MANT == 53 {
        2f64.powi(-700)
    } else {
        2f64.powi(-70)
    }
}

fn src_free(_o: u32) -> f64 {
    // boundary values of the second data set in a superposition: fixed dyadic numbers
    0.375
}

fn map_bc(bc: &BcSel, f1: impl Fn(f64) -> f64, f2: impl Fn(f64) -> f64) -> BcSel {
    match bc {
        BcSel::Individual(v) => BcSel::Individual(
            v.iter()
                .map(|l| match l {
                    LaneSel::Mixed(a, b) => {
                        let m = |e: &EndSel| match e {
                            EndSel::First(v) => EndSel::First(f1(*v)),
                            EndSel::Second(v) => EndSel::Second(f2(*v)),
                            o => o.clone(),
                        };
                        LaneSel::Mixed(m(a), m(b))
                    }
                    o => o.clone(),
                })
                .collect(),
        ),
        o => o.clone(),
    }
}

fn add_bc(a: &BcSel, b: &BcSel) -> BcSel {
    match (a, b) {
        (BcSel::Individual(x), BcSel::Individual(y)) => BcSel::Individual(
            x.iter()
                .zip(y)
                .map(|(p, q)| match (p, q) {
                    (LaneSel::Mixed(a1, b1), LaneSel::Mixed(a2, b2)) => {
                        let ad = |u: &EndSel, v: &EndSel| match (u, v) {
                            (EndSel::First(s), EndSel::First(t)) => EndSel::First(s + t),
                            (EndSel::Second(s), EndSel::Second(t)) => EndSel::Second(s + t),
                            (o, _) => o.clone(),
                        };
                        LaneSel::Mixed(ad(a1, a2), ad(b1, b2))
                    }
                    (o, _) => o.clone(),
                })
                .collect(),
        ),
        (o, _) => o.clone(),
    }
}

fn frexp_exp(v: f64) -> (f64, i32) {
    let e = v.abs().log2().floor() as i32;
    (v / 2f64.powi(e), e)
}

/// largest power of two g such that every value is an integer multiple of g
fn grid_step(x: &[f64], q: &[f64]) -> f64 {
    let mut g = 2f64.powi(40);
    for &v in x.iter().chain(q.iter()) {
        if v == 0.0 {
            continue;
        }
        while (v / g).fract() != 0.0 {
            g *= 0.5;
        }
    }
    g
}

fn run2<T: Flt>(src: &mut Src, obs: &mut Obs) -> Result<(), Fail> {
    obs.class("dim:2");
    obs.class(format!("T:{}", T::NAME));
    obs.class("strat:Bilinear");
    let mut g = Grid::gen::<T>(src, 1);
    if g.cx == AxisClass::Index {
        g.cx = AxisClass::Unit;
    }
    if g.cy == AxisClass::Index {
        g.cy = AxisClass::Unit;
    }
    g.classes(obs);
    let extrap = src.bool();
    let rel = src.below(4);
    let reln = ["rel:data-pow2", "rel:data-negate", "rel:axis-pow2", "rel:data-times-c"][rel as usize];
    obs.class(reln);
    let nq = src.usize_in(6, 12);
    let qs: Vec<(f64, f64)> = (0..nq)
        .map(|_| {
            let ((a, b), _) = query2::<T>(src, &g.x, &g.y);
            if extrap && src.chance(1, 3) {
                let span = |ax: &[f64]| 16.0 * (ax[ax.len() - 1] - ax[0]);
                (outside::<T>(src, &g.x).0.clamp(g.x[0] - span(&g.x), g.x[g.nx - 1] + span(&g.x)), b)
            } else {
                (a, b)
            }
        })
        .collect();
    let thr = sub_thr::<T>();
    let mut qs = qs;
    for q in qs.iter_mut() {
        let (i, j) = (bracket(&g.x, q.0), bracket(&g.y, q.1));
        for kn in [g.x[i], g.x[i + 1]] {
            let d = (q.0 - kn).abs();
            if d > 0.0 && d < thr {
                q.0 = kn;
            }
        }
        for kn in [g.y[j], g.y[j + 1]] {
            let d = (q.1 - kn).abs();
            if d > 0.0 && d < thr {
                q.1 = kn;
            }
        }
    }
    let (mut tx, mut ty, mut td) = (g.x.clone(), g.y.clone(), g.data.clone());
    let mut qt = qs.clone();
    let mut fac = 1.0;
    let mut exact = true;
    let mut one = false;
    match rel {
        0 => {
            let k = src.int_in(-20, 20) as i32;
            one = k == 0;
            fac = 2f64.powi(k);
            td.iter_mut().for_each(|v| *v *= fac);
        }
        1 => {
            fac = -1.0;
            td.iter_mut().for_each(|v| *v = -*v);
        }
        2 => {
            let (kx, ky) = (src.int_in(-20, 20) as i32, src.int_in(-20, 20) as i32);
            one = kx == 0 && ky == 0;
            let (fx, fy) = (2f64.powi(kx), 2f64.powi(ky));
            tx.iter_mut().for_each(|v| *v *= fx);
            ty.iter_mut().for_each(|v| *v *= fy);
            qt.iter_mut().for_each(|q| {
                q.0 *= fx;
                q.1 *= fy;
            });
        }
        _ => {
            fac = T::of(src.pick(&[3.0, 0.1, 1.7])).f();
            exact = false;
            td.iter_mut().for_each(|v| *v = T::of(*v * fac).f());
        }
    }
    let t = Grid { x: tx, y: ty, data: td, trailing: g.trailing.clone(), ..g };
    let ia = g.build::<T>(extrap)?;
    let ib = t.build::<T>(extrap)?;
    let ep = pick_ep(src, g.dd == DDim::S2);
    let ra = eval2::<T>(ia.as_ref(), &qs, ep, g.lanes, &g.trailing)?;
    let rb = eval2::<T>(ib.as_ref(), &qt, ep, g.lanes, &g.trailing)?;
    for k in 0..nq {
        let (i, j) = (bracket(&g.x, qs[k].0), bracket(&g.y, qs[k].1));
        let s = (qs[k].0 - g.x[i]) / (g.x[i + 1] - g.x[i]);
        let tt = (qs[k].1 - g.y[j]) / (g.y[j + 1] - g.y[j]);
        for l in 0..g.lanes {
            let (a, b) = (ra[k][l].f(), rb[k][l].f());
            obs.asserts += 1;
            if exact {
                let want = a * fac;
                if (want != 0.0 && want.abs() < thr) || (a != 0.0 && a.abs() < thr) {
                    continue;
                }
                if !(T::of(want).key() == T::of(b).key() || (want == 0.0 && b == 0.0)) {
                    fail!(format!("exact-relation/2d/{reln}"), "T={} Bilinear lane {l}: {reln}: q=({:e},{:e}): original {a:e}, transformed {b:e}, expected exactly {want:e}", T::NAME, qs[k].0, qs[k].1);
                }
            } else {
                let m = [g.z(i, j, l), g.z(i, j + 1, l), g.z(i + 1, j, l), g.z(i + 1, j + 1, l)].iter().fold(0f64, |a, v| a.max(v.abs()));
                let gr = ((1.0 - s).abs() + s.abs()) * ((1.0 - tt).abs() + tt.abs());
                let tol = (2.0 * ULPS2 * 2.0 + 4.0) * T::U * m * fac.abs() * gr + T::TINY;
                let d = (b - a * fac).abs();
                obs.err_l(reln, d / tol);
                if !(d <= tol) {
                    fail!(format!("approx-relation/2d/{reln}"), "T={} Bilinear lane {l}: data x {fac}: got {b:e}, expected {:e} up to rounding", T::NAME, a * fac);
                }
            }
        }
    }
    obs.nontrivial = !one && (!is_uniform(&g.x) || !is_uniform(&g.y));
    if obs.nontrivial {
        g.key(obs);
        obs.key(&(rel, fac.to_bits()));
    }
    obs.describe(|| {
        let mut d = g.describe::<T>();
        d["relation"] = json!(reln);
        d
    });
    Ok(())
}
