//! C06 - extrapolation continues the end polynomial and never rejects a finite query.

use super::c03::k_const;
use super::c04::{eval2, exact_bilinear, query2, Grid, ULPS2};
use super::*;
use crate::adapt::*;
use crate::common::*;
use crate::exact::Rat;
use crate::fail;
use crate::gen::*;
use crate::gen1d::*;
use crate::oracle::*;
use crate::splinegen::{interval_samples, SplineOpts};

pub struct C06;

impl Check for C06 {
    fn id(&self) -> &'static str {
        "C06"
    }
    fn entropy_len(&self) -> usize {
        800
    }
    fn cases(&self, tier: Tier) -> u64 {
        tier.pick(20_000, 1_000_000)
    }
    fn run_case(&self, src: &mut Src, obs: &mut Obs) -> Result<(), Fail> {
        let two_d = src.chance(1, 3);
        match (two_d, src.chance(1, 5)) {
            (false, false) => run1::<f64>(src, obs),
            (false, true) => run1::<f32>(src, obs),
            (true, false) => run2::<f64>(src, obs),
            (true, true) => run2::<f32>(src, obs),
        }
    }
    fn rule(&self) -> String {
        "twins built from the same inputs with extrapolate(true) and extrapolate(false): Linear, CubicSpline with every non-periodic \
         boundary selection, Bilinear. Finite queries: in range (knots, +-ulp, interior), the floats just outside each end, and \
         2^j spans outside for j in -10..40 (f32: -6..8) on either side; 2-D: outside in x only, y only, both. Oracle: (i) never \
         Err/panic; (ii) in range bit-identical to the non-extrapolating twin (same concrete type); (iii) outside: exact rational end \
         line / the end cubic that the implementation itself realises on its end interval (recovered by an exact rational fit of 4 of its in-range \
         values, so independent of C02/C03) / bilinear form of the border cell, allowances of DESIGN 3.4 with growth \
         factor. Non-trivial: at least one query strictly outside the range."
            .into()
    }
    fn assumptions(&self) -> Vec<String> {
        let mut v = super::c03::spline_assumptions();
        v.push("Linear outside: 8*2u*(|y1| + |t|(|y1|+|y2|)); Bilinear outside: 16 ulp(M)*(|1-s|+|s|)(|1-t|+|t|)".into());
        v.push("non-finite queries (NaN, +-inf) are outside the property (it quantifies over finite queries) and are not generated".into());
        v
    }
    fn required_classes(&self, _t: Tier) -> Vec<&'static str> {
        vec!["dim:1", "dim:2", "strat:Linear", "strat:Spline/Individual", "strat:Spline/NotAKnot", "out:just-below", "out:just-above", "out:far-below", "out:far-above", "2d:out-x", "2d:out-y", "2d:out-both", "in-range-twin"]
    }
    fn extra_coverage(&self) -> serde_json::Value {
        json!({"K_f64": k_const::<f64>(), "K_f32": k_const::<f32>()})
    }
}

/// an out-of-range finite query with its class
/// largest finite value of T
fn tmax<T: Flt>() -> f64 {
    if T::MANT == 53 {
        f64::MAX
    } else {
        f32::MAX as f64
    }
}

pub fn outside<T: Flt>(src: &mut Src, x: &[f64]) -> (f64, &'static str) {
    let n = x.len();
    let (lo, hi) = (T::of(x[0]), T::of(x[n - 1]));
    let span = x[n - 1] - x[0];
    // up to 2^150 spans away (f32: 2^30): far beyond 2^53 (2^24) interval widths, where t + 1 == t, and still finite
    let (jlo, jhi) = if T::MANT == 53 { (-10, if src.chance(1, 4) { 150 } else { 40 }) } else { (-6, if src.chance(1, 4) { 30 } else { 8 }) };
    // the origin, when it lies outside the range ("extrapolate to the intercept")
    if !(x[0] <= 0.0 && 0.0 <= x[n - 1]) && src.chance(1, 6) {
        return (if src.bool() { 0.0 } else { -0.0 }, "out:zero");
    }
    match src.below(4) {
        0 => (lo.down().f(), "out:just-below"),
        1 => (hi.up().f(), "out:just-above"),
        2 => {
            let j = src.int_in(jlo, jhi) as i32;
            let v = T::of(x[0] - span * (1.0 + src.unit()) * 2f64.powi(j));
            (if v < lo { v.f() } else { lo.down().f() }, "out:far-below")
        }
        _ => {
            let j = src.int_in(jlo, jhi) as i32;
            let v = T::of(x[n - 1] + span * (1.0 + src.unit()) * 2f64.powi(j));
            (if v > hi { v.f() } else { hi.up().f() }, "out:far-above")
        }
    }
}

fn run1<T: Flt>(src: &mut Src, obs: &mut Obs) -> Result<(), Fail> {
    obs.class("dim:1");
    obs.class(format!("T:{}", T::NAME));
    let o = Opts1 { spline: SplineOpts { periodic: Some(false), ..SplineOpts::default() }, ..Opts1::default() };
    let c = Case1::gen::<T>(src, &o);
    c.classes(obs);
    let a = c.build::<T>(true)?;
    let b = c.build::<T>(false)?;
    let nq = src.usize_in(8, 24);
    let mut qs = Vec::new();
    let mut out = Vec::new();
    let mut any_out = false;
    for k in 0..nq {
        if src.chance(2, 3) {
            let (q, cl) = outside::<T>(src, &c.x);
            qs.push(q);
            out.push(true);
            any_out = true;
            if k < 8 {
                obs.class(cl);
            }
        } else {
            let (q, _) = query_in_range::<T>(src, &c.x);
            qs.push(q);
            out.push(false);
        }
    }
    let ep = pick_ep(src, c.dd == DDim::S1);
    obs.class(format!("ep:{}", EP_NAMES[ep]));
    let ra = match catch(|| eval1::<T>(a.as_ref(), &qs, ep, c.lanes, &c.trailing)) {
        Ok(Ok(r)) => r,
        Ok(Err(f)) => fail!(format!("finite-query-rejected/{}", c.strat.name()), "T={} {}: with extrapolation enabled: {}", T::NAME, c.strat.name(), f.msg),
        Err(p) => fail!("panic", "T={} {} extrapolating query panicked: {p}", T::NAME, c.strat.name()),
    };
    // in-range twin
    let inr: Vec<usize> = (0..nq).filter(|&k| !out[k]).collect();
    if !inr.is_empty() {
        let qi: Vec<f64> = inr.iter().map(|&k| qs[k]).collect();
        let rb = eval1::<T>(b.as_ref(), &qi, if ep == 3 { 2 } else { ep }, c.lanes, &c.trailing)?;
        obs.class("in-range-twin");
        for (m, &k) in inr.iter().enumerate() {
            for l in 0..c.lanes {
                obs.asserts += 1;
                if ra[k][l].key() != rb[m][l].key() {
                    fail!(format!("in-range-differs/{}", c.strat.name()), "T={} {} lane {l}: q={:e} in range: extrapolating interpolator returns {:e}, non-extrapolating twin {:e}", T::NAME, c.strat.name(), qs[k], ra[k][l].f(), rb[m][l].f());
                }
            }
        }
    }
    // outside: the polynomial piece of the nearest end interval evaluated at the query.
    // Linear: the line through the two end data points. CubicSpline: the cubic that the
    // implementation itself realises on its end interval, recovered exactly (rational cubic
    // fit) from 4 of its in-range values - so this check does not depend on whether the
    // spline's coefficients are the right ones (that is C02/C03), only on how it is continued.
    let n = c.n;
    let is_spline = matches!(c.strat, StratSel::Spline(_));
    for side in [0usize, n - 2] {
        let outs: Vec<usize> = (0..nq).filter(|&k| out[k] && ((qs[k] < c.x[0]) == (side == 0))).collect();
        if outs.is_empty() || (side == n - 2 && n == 2 && false) {
            continue;
        }
        let i = side;
        let h = c.x[i + 1] - c.x[i];
        // in-range samples of the end interval (spline only)
        let samp = interval_samples::<T>(&c.x, i);
        let sv = if is_spline && samp.len() >= 5 { Some(eval1::<T>(a.as_ref(), &samp, 1, c.lanes, &c.trailing)?) } else { None };
        if is_spline && sv.is_none() {
            obs.count("end_interval_with_fewer_than_5_distinct_samples", 1);
            continue;
        }
        for l in 0..c.lanes {
            let yl = c.lane_data(l);
            let fit = sv.as_ref().map(|sv| {
                let idx = [0usize, 1, 3, 4];
                let q4: Vec<Rat> = idx.iter().map(|&j| Rat::from_f64(samp[j])).collect();
                let v4: Vec<Rat> = idx.iter().map(|&j| Rat::from_f64(sv[j][l].f())).collect();
                let vmax = sv.iter().map(|v| v[l].f().abs()).fold(yl.iter().fold(0f64, |a, v| a.max(v.abs())), f64::max);
                let smax = (0..samp.len() - 1).map(|j| ((sv[j + 1][l].f() - sv[j][l].f()) / (samp[j + 1] - samp[j])).abs()).fold(0f64, f64::max);
                (q4, v4, vmax + 4.0 * h * smax)
            });
            for &k in &outs {
                let q = qs[k];
                let t = (q - c.x[i]) / h;
                let got = ra[k][l].f();
                let (want, tol) = match &fit {
                    None => {
                        let (y1, y2) = (yl[i], yl[i + 1]);
                        (exact_line(c.x[i], y1, c.x[i + 1], y2, q), super::c01::ULPS * 2.0 * T::U * (y1.abs() + t.abs() * (y1.abs() + y2.abs())))
                    }
                    Some((q4, v4, sigma)) => {
                        let at = Rat::from_f64(q);
                        let want = super::c03::fit_cubic(q4, v4, &at)[0].clone();
                        let w = super::c03::deriv_weights(q4, &at, 0);
                        let a_in = k_const::<T>() * T::U * sigma * 1.25;
                        (want, super::c03::norm1(&w, &[a_in; 4]) + k_const::<T>() * T::U * sigma * growth(t))
                    }
                };
                // the premise of "up to rounding": no intermediate of the evaluation leaves the float range. tol / u is (a multiple
                // of) the size of the largest term; where that is within 2^-8 of the largest finite number the comparison is skipped
                // and counted (far extrapolation of steep end pieces, f32 mostly)
                if !(tol / T::U).is_finite() || tol / T::U > tmax::<T>() / 256.0 {
                    obs.count("far_queries_skipped_result_or_intermediate_out_of_range", 1);
                    continue;
                }
                let (ok, ne) = within(got, &want, tol + T::TINY);
                obs.asserts += 1;
                obs.err_l(&format!("outside:{}:{}", if is_spline { "spline" } else { "linear" }, T::NAME), ne);
                if !ok {
                    fail!(format!("end-polynomial/{}/{}", c.strat.name(), if i == 0 { "left" } else { "right" }),
                        "T={} {} lane {l}: q={q:e} outside [{:e},{:e}] (t={t:.3e}): got {got:e}, the end piece continued gives {:e}, |diff|/allowance={ne:.3e}; x={:?} y={:?}",
                        T::NAME, c.strat.name(), c.x[0], c.x[n - 1], want.to_f64(), c.x, yl);
                }
            }
        }
    }
    obs.nontrivial = any_out;
    if any_out {
        c.key(obs);
        obs.key_f64s(&qs);
    }
    obs.describe(|| {
        let mut d = c.describe::<T>();
        d["queries"] = ffs::<T>(&qs, 6);
        d["entry"] = json!(EP_NAMES[ep]);
        d
    });
    Ok(())
}

fn run2<T: Flt>(src: &mut Src, obs: &mut Obs) -> Result<(), Fail> {
    obs.class("dim:2");
    obs.class(format!("T:{}", T::NAME));
    obs.class("strat:Bilinear");
    let g = Grid::gen::<T>(src, 2);
    g.classes(obs);
    let a = g.build::<T>(true)?;
    let b = g.build::<T>(false)?;
    let nq = src.usize_in(8, 20);
    let mut qs = Vec::new();
    let mut out = Vec::new();
    let mut any_out = false;
    for k in 0..nq {
        let kind = src.below(4);
        let ((ix, iy), _) = query2::<T>(src, &g.x, &g.y);
        let (qx, qy, cl) = match kind {
            0 => (ix, iy, "2d:in"),
            1 => (outside::<T>(src, &g.x).0, iy, "2d:out-x"),
            2 => (ix, outside::<T>(src, &g.y).0, "2d:out-y"),
            _ => (outside::<T>(src, &g.x).0, outside::<T>(src, &g.y).0, "2d:out-both"),
        };
        qs.push((qx, qy));
        out.push(kind != 0);
        any_out |= kind != 0;
        if k < 8 {
            obs.class(cl);
        }
    }
    let ep = pick_ep(src, g.dd == DDim::S2);
    obs.class(format!("ep:{}", EP_NAMES[ep]));
    let ra = match catch(|| eval2::<T>(a.as_ref(), &qs, ep, g.lanes, &g.trailing)) {
        Ok(Ok(r)) => r,
        Ok(Err(f)) => fail!("finite-query-rejected/Bilinear", "T={} Bilinear with extrapolation enabled: {}", T::NAME, f.msg),
        Err(p) => fail!("panic", "T={} Bilinear extrapolating query panicked: {p}", T::NAME),
    };
    let inr: Vec<usize> = (0..nq).filter(|&k| !out[k]).collect();
    if !inr.is_empty() {
        let qi: Vec<(f64, f64)> = inr.iter().map(|&k| qs[k]).collect();
        let rb = eval2::<T>(b.as_ref(), &qi, if ep == 3 { 2 } else { ep }, g.lanes, &g.trailing)?;
        obs.class("in-range-twin");
        for (m, &k) in inr.iter().enumerate() {
            for l in 0..g.lanes {
                obs.asserts += 1;
                if ra[k][l].key() != rb[m][l].key() {
                    fail!("in-range-differs/Bilinear", "T={} lane {l}: q=({:e},{:e}) in range: extrapolating {:e}, twin {:e}", T::NAME, qs[k].0, qs[k].1, ra[k][l].f(), rb[m][l].f());
                }
            }
        }
    }
    for k in 0..nq {
        if !out[k] {
            continue;
        }
        let (qx, qy) = qs[k];
        let i = bracket(&g.x, qx);
        let j = bracket(&g.y, qy);
        let s = (qx - g.x[i]) / (g.x[i + 1] - g.x[i]);
        let t = (qy - g.y[j]) / (g.y[j + 1] - g.y[j]);
        for l in 0..g.lanes {
            let z = [g.z(i, j, l), g.z(i, j + 1, l), g.z(i + 1, j, l), g.z(i + 1, j + 1, l)];
            let m = z.iter().fold(0f64, |a, v| a.max(v.abs()));
            let tol = ULPS2 * 2.0 * T::U * m * ((1.0 - s).abs() + s.abs()) * ((1.0 - t).abs() + t.abs());
            let want = exact_bilinear((g.x[i], g.x[i + 1]), (g.y[j], g.y[j + 1]), z, (qx, qy));
            let got = ra[k][l].f();
            if !(tol / T::U).is_finite() || tol / T::U > tmax::<T>() / 256.0 {
                obs.count("far_queries_skipped_result_or_intermediate_out_of_range", 1);
                continue;
            }
            let (ok, ne) = within(got, &want, tol + T::TINY);
            obs.asserts += 1;
            obs.err_l(&format!("outside:bilinear:{}", T::NAME), ne);
            if !ok {
                fail!("border-cell-form", "T={} grid {}x{} lane {l}: q=({qx:e},{qy:e}) outside; got {got:e}, bilinear form of border cell ({i},{j}) gives {:e}, |diff|/allowance={ne:.3e}", T::NAME, g.nx, g.ny, want.to_f64());
            }
        }
    }
    obs.nontrivial = any_out;
    if any_out {
        g.key(obs);
        obs.key_f64s(&qs.iter().flat_map(|q| [q.0, q.1]).collect::<Vec<_>>());
    }
    obs.describe(|| {
        let mut d = g.describe::<T>();
        d["queries"] = json!(qs.iter().take(5).map(|q| format!("({:e},{:e})", q.0, q.1)).collect::<Vec<_>>());
        d
    });
    Ok(())
}
