//! C05 - without extrapolation a query is answered iff it lies in the closed axis range.

use super::c04::Grid;
use super::*;
use crate::adapt::*;
use crate::common::*;
use crate::fail;
use crate::gen::*;
use crate::gen1d::*;
use ndarray::{ArrayD, IxDyn};

pub struct C05;

impl Check for C05 {
    fn id(&self) -> &'static str {
        "C05"
    }
    fn entropy_len(&self) -> usize {
        700
    }
    fn cases(&self, tier: Tier) -> u64 {
        tier.pick(600_000, 20_000_000)
    }
    fn run_case(&self, src: &mut Src, obs: &mut Obs) -> Result<(), Fail> {
        let two_d = src.chance(1, 3);
        match (two_d, src.chance(1, 5)) {
            (false, false) => run1::<f64>(src, obs),
            (false, true) => run1::<f32>(src, obs),
            (true, false) => run2::<f64>(src, obs),
            (true, true) => run2::<f32>(src, obs),
        }
    }
    fn rule(&self) -> String {
        "every strategy with extrapolation off (Linear; CubicSpline with NotAKnot/Natural/Clamped/Periodic/Individual; Bilinear), \
         every entry point (interp_scalar, interp, interp_into, interp_array with query dims Ix0..Ix4 and IxDyn, interp_array_into). \
         Single queries from: both range ends, the floats adjacent to them on both sides, +-inf, NaN, +-MAX, far outside, interior. \
         Batches (axis lengths 0..9 for rank 1, 0..4 per axis above): all in range, or 1 / several offending elements at generated positions. 2-D: x and y ranges \
         differ; offending coordinate in x only, y only, both; values that are inside the *other* axis' range. Oracle: the closed-range \
         predicate on the same floats: Ok iff every element is in range, Err otherwise, never a panic; Ok results have shape \
         query ++ trailing. Non-trivial: the query set contains an end, a neighbour of an end, NaN or an infinity, or a batch with exactly \
         one offending element."
            .into()
    }
    fn assumptions(&self) -> Vec<String> {
        vec!["outcome classes only (Ok / Err / panic); error messages are not part of the oracle".into()]
    }
    fn required_classes(&self, _t: Tier) -> Vec<&'static str> {
        vec!["dim:1", "dim:2", "q:nan", "q:+inf", "q:-inf", "q:below-ulp", "q:above-ulp", "q:first", "q:last", "batch:one-bad", "batch:all-good",
            "ep:scalar", "ep:interp", "ep:interp_into", "ep:array", "ep:array_into", "strat:Linear", "strat:Spline/Periodic", "strat:Spline/Individual", "2d:bad-x-only", "2d:bad-y-only"]
    }
}

#[derive(Clone, Copy, PartialEq, Debug)]
pub enum RQ {
    First,
    Last,
    InsideUlpLo,
    InsideUlpHi,
    Interior,
    BelowUlp,
    AboveUlp,
    PInf,
    NInf,
    NaN,
    PMax,
    NMax,
    FarBelow,
    FarAbove,
}

impl RQ {
    pub fn name(self) -> &'static str {
        match self {
            RQ::First => "q:first",
            RQ::Last => "q:last",
            RQ::InsideUlpLo => "q:first+ulp",
            RQ::InsideUlpHi => "q:last-ulp",
            RQ::Interior => "q:interior",
            RQ::BelowUlp => "q:below-ulp",
            RQ::AboveUlp => "q:above-ulp",
            RQ::PInf => "q:+inf",
            RQ::NInf => "q:-inf",
            RQ::NaN => "q:nan",
            RQ::PMax => "q:+max",
            RQ::NMax => "q:-max",
            RQ::FarBelow => "q:far-below",
            RQ::FarAbove => "q:far-above",
        }
    }
    pub const GOOD: [RQ; 5] = [RQ::First, RQ::Last, RQ::InsideUlpLo, RQ::InsideUlpHi, RQ::Interior];
    pub const BAD: [RQ; 9] = [RQ::BelowUlp, RQ::AboveUlp, RQ::PInf, RQ::NInf, RQ::NaN, RQ::PMax, RQ::NMax, RQ::FarBelow, RQ::FarAbove];
    pub fn special(self) -> bool {
        !matches!(self, RQ::Interior | RQ::FarBelow | RQ::FarAbove | RQ::PMax | RQ::NMax)
    }
}

pub fn make_q<T: Flt>(src: &mut Src, x: &[f64], c: RQ) -> T {
    let lo = T::of(x[0]);
    let hi = T::of(x[x.len() - 1]);
    let span = (x[x.len() - 1] - x[0]).abs().max(1e-30);
    match c {
        RQ::First => lo,
        RQ::Last => hi,
        RQ::InsideUlpLo => lo.up(),
        RQ::InsideUlpHi => hi.down(),
        RQ::Interior => {
            let i = src.below(x.len() as u64 - 1) as usize;
            let v = T::of(x[i] + (x[i + 1] - x[i]) * src.unit());
            if v < lo { lo } else if v > hi { hi } else { v }
        }
        RQ::BelowUlp => lo.down(),
        RQ::AboveUlp => hi.up(),
        RQ::PInf => T::infinity(),
        RQ::NInf => T::neg_infinity(),
        RQ::NaN => T::nan(),
        RQ::PMax => T::max_value(),
        RQ::NMax => -T::max_value(),
        RQ::FarBelow => {
            let v = T::of(x[0] - span * 2f64.powi(src.int_in(-8, 12) as i32));
            if v < lo { v } else { lo.down() }
        }
        RQ::FarAbove => {
            let v = T::of(x[x.len() - 1] + span * 2f64.powi(src.int_in(-8, 12) as i32));
            if v > hi { v } else { hi.up() }
        }
    }
}

pub fn in_closed<T: Flt>(x: &[f64], q: T) -> bool {
    T::of(x[0]) <= q && q <= T::of(x[x.len() - 1])
}

fn poison<T: Flt>() -> T {
    T::of(-7.7777e33)
}

fn run1<T: Flt>(src: &mut Src, obs: &mut Obs) -> Result<(), Fail> {
    obs.class("dim:1");
    obs.class(format!("T:{}", T::NAME));
    // trailing axes of length 0 included: out-of-range must be reported even when there is nothing to compute
    let o = Opts1 { lens: &[0, 1, 1, 2, 2, 3, 3], spline: crate::splinegen::SplineOpts { lens: &[0, 1, 1, 2, 2, 3], ..Default::default() }, ..Opts1::default() };
    let c = Case1::gen::<T>(src, &o);
    c.classes(obs);
    if c.lanes == 0 {
        obs.class("lanes:0");
    }
    let interp = c.build::<T>(false)?;
    let ep = src.below(5);
    let ep = if ep == 0 && c.dd != DDim::S1 { 1 } else { ep };
    let epn = ["scalar", "interp", "interp_into", "array", "array_into"][ep as usize];
    obs.class(format!("ep:{epn}"));
    let mut special = false;
    let mut one_bad = false;
    let mut qdesc: Vec<String> = Vec::new();
    if ep <= 2 {
        let cls = if src.bool() { src.pick(&RQ::GOOD) } else { src.pick(&RQ::BAD) };
        let q = make_q::<T>(src, &c.x, cls);
        let expect = in_closed::<T>(&c.x, q);
        obs.class(cls.name());
        special = cls.special();
        qdesc.push(format!("{} {:e}", cls.name(), q.f()));
        let got: Result<Result<Option<Arr<T>>, String>, String> = catch(|| match ep {
            0 => interp.t_scalar(q).unwrap().map(|_| None),
            1 => interp.t_interp(q).map(Some),
            _ => {
                let mut buf = ArrayD::from_elem(IxDyn(&c.trailing), poison::<T>());
                interp.t_interp_into(q, buf.view_mut()).unwrap().map(|_| Some(to_arr(&buf)))
            }
        });
        obs.asserts += 1;
        match got {
            Err(p) => fail!(format!("panic/{}", cls.name()), "T={} {} {epn}({:e}) panicked: {p}", T::NAME, c.strat.name(), q.f()),
            Ok(Ok(a)) => {
                if !expect {
                    fail!(format!("answered-out-of-range/{}", cls.name()), "T={} {} {epn}({:e}) returned a value although the range is [{:e},{:e}]", T::NAME, c.strat.name(), q.f(), c.x[0], c.x[c.n - 1]);
                }
                if let Some(a) = a {
                    if a.shape != c.trailing {
                        fail!("result-shape", "{epn}: shape {:?}, expected {:?}", a.shape, c.trailing);
                    }
                }
            }
            Ok(Err(_)) => {
                if expect {
                    fail!(format!("rejected-in-range/{}", cls.name()), "T={} {} {epn}({:e}) rejected although the range is [{:e},{:e}]", T::NAME, c.strat.name(), q.f(), c.x[0], c.x[c.n - 1]);
                }
            }
        }
    } else {
        let qd = src.pick(&[QDim::S0, QDim::S1, QDim::S1, QDim::S2, QDim::S3, QDim::S4, QDim::Dyn]);
        let rank = qd.static_rank().unwrap_or_else(|| src.usize_in(0, 3));
        let mut shape = qshape(src, rank);
        // rank-1 batches: in 1 of 10 the query starts with the complete axis (evaluation at the knots plus extra points)
        let axis_prefix = rank == 1 && src.chance(1, 10);
        if axis_prefix {
            shape = vec![c.n + src.usize_in(1, 3)];
            obs.class("batch:axis-prefix");
        }
        // rarely a very long rank-1 batch (block-wise processing): the elements cycle through a small pool
        let very_long = rank == 1 && !axis_prefix && src.chance(1, 100);
        if very_long {
            shape = vec![src.usize_in(4097, 9000)];
            obs.class("batch:very-long");
        }
        let len = product(&shape);
        obs.class(format!("qdim:{}", qd.name()));
        let mut qs: Vec<T> = Vec::with_capacity(len);
        let pool: Vec<T> = if very_long {
            (0..16)
                .map(|_| {
                    let cls = src.pick(&RQ::GOOD);
                    make_q::<T>(src, &c.x, cls)
                })
                .collect()
        } else {
            vec![]
        };
        for k in 0..len {
            if very_long {
                qs.push(pool[k % 16]);
                continue;
            }
            if axis_prefix && k < c.n {
                qs.push(T::of(c.x[k]));
                continue;
            }
            let cls = src.pick(&RQ::GOOD);
            special |= cls.special();
            qs.push(make_q::<T>(src, &c.x, cls));
        }
        let nbad = if len == 0 { 0 } else { [0usize, 1, 1, 1, 2, 3][src.below(6) as usize].min(len) };
        for b in 0..nbad {
            // first, last, or any position (behind the axis when the query starts with it)
            let pos = match src.below(4) {
                _ if axis_prefix => c.n + src.below((len - c.n) as u64) as usize,
                0 => 0,
                1 => len - 1,
                _ => src.below(len as u64) as usize,
            };
            let cls = src.pick(&RQ::BAD);
            special |= cls.special();
            obs.class(cls.name());
            qs[pos] = make_q::<T>(src, &c.x, cls);
            if b == 0 {
                qdesc.push(format!("bad {} at {pos}/{len}", cls.name()));
            }
        }
        // batches in ascending / descending order (NaN last) besides the order as generated
        if len >= 2 && !axis_prefix {
            match src.below(6) {
                0 => {
                    qs.sort_by(|a, b| a.partial_cmp(b).unwrap_or_else(|| a.is_nan().cmp(&b.is_nan())));
                    obs.class("batch:ascending");
                }
                1 => {
                    qs.sort_by(|a, b| b.partial_cmp(a).unwrap_or_else(|| a.is_nan().cmp(&b.is_nan())));
                    obs.class("batch:descending");
                }
                _ => {}
            }
        }
        let expect = qs.iter().all(|&q| in_closed::<T>(&c.x, q));
        let bad_count = qs.iter().filter(|&&q| !in_closed::<T>(&c.x, q)).count();
        one_bad = bad_count == 1;
        obs.class(match bad_count {
            0 => "batch:all-good",
            1 => "batch:one-bad",
            _ => "batch:several-bad",
        });
        if len == 0 {
            obs.class("batch:empty");
        }
        let qa = ArrayD::from_shape_vec(IxDyn(&shape), qs.clone()).unwrap();
        let mut want = shape.clone();
        want.extend_from_slice(&c.trailing);
        let got: Result<Result<Arr<T>, String>, String> = catch(|| {
            if ep == 3 {
                interp.t_array(qa.view(), qd).unwrap()
            } else {
                let mut buf = ArrayD::from_elem(IxDyn(&want), poison::<T>());
                interp.t_array_into(qa.view(), qd, buf.view_mut()).unwrap().map(|_| to_arr(&buf))
            }
        });
        obs.asserts += 1;
        match got {
            Err(p) => fail!("panic/batch", "T={} {} {epn} shape {:?} ({} bad) panicked: {p}", T::NAME, c.strat.name(), shape, bad_count),
            Ok(Ok(a)) => {
                if !expect {
                    fail!(format!("answered-out-of-range/batch{}", if one_bad { "-one-bad" } else { "" }), "T={} {} {epn} query shape {:?} with {bad_count} out-of-range element(s) {:?} returned Ok", T::NAME, c.strat.name(), shape, qdesc);
                }
                if a.shape != want {
                    fail!("result-shape", "{epn}: shape {:?}, expected {:?}", a.shape, want);
                }
            }
            Ok(Err(_)) => {
                if expect {
                    fail!("rejected-in-range/batch", "T={} {} {epn} query shape {:?} all in range was rejected", T::NAME, c.strat.name(), shape);
                }
            }
        }
    }
    obs.nontrivial = special || one_bad;
    if obs.nontrivial {
        c.key(obs);
        obs.key(&format!("{epn}{qdesc:?}"));
    }
    obs.describe(|| {
        let mut d = c.describe::<T>();
        d["entry"] = json!(epn);
        d["query"] = json!(qdesc);
        d
    });
    Ok(())
}

fn run2<T: Flt>(src: &mut Src, obs: &mut Obs) -> Result<(), Fail> {
    obs.class("dim:2");
    obs.class(format!("T:{}", T::NAME));
    obs.class("strat:Bilinear");
    let g = Grid::gen::<T>(src, 2);
    g.classes(obs);
    let interp = g.build::<T>(false)?;
    let ep = src.below(5);
    let ep = if ep == 0 && g.dd != DDim::S2 { 1 } else { ep };
    let epn = ["scalar", "interp", "interp_into", "array", "array_into"][ep as usize];
    obs.class(format!("ep:{epn}"));
    // one 2-D point: (class for x, class for y)
    let point = |src: &mut Src, obs: &mut Obs, force_good: bool| -> (T, T, bool, bool, bool) {
        let kind = if force_good { 0 } else { src.below(4) };
        let (cx, cy) = match kind {
            0 => (src.pick(&RQ::GOOD), src.pick(&RQ::GOOD)),
            1 => (src.pick(&RQ::BAD), src.pick(&RQ::GOOD)),
            2 => (src.pick(&RQ::GOOD), src.pick(&RQ::BAD)),
            _ => (src.pick(&RQ::BAD), src.pick(&RQ::BAD)),
        };
        let mut qx = make_q::<T>(src, &g.x, cx);
        let mut qy = make_q::<T>(src, &g.y, cy);
        // values valid for the *other* axis: catches a coordinate checked against the wrong axis
        if kind == 1 && src.bool() {
            let alt = make_q::<T>(src, &g.y, RQ::Interior);
            if !in_closed::<T>(&g.x, alt) {
                qx = alt;
                obs.class("2d:x-from-y-range");
            }
        }
        if kind == 2 && src.bool() {
            let alt = make_q::<T>(src, &g.x, RQ::Interior);
            if !in_closed::<T>(&g.y, alt) {
                qy = alt;
                obs.class("2d:y-from-x-range");
            }
        }
        let okx = in_closed::<T>(&g.x, qx);
        let oky = in_closed::<T>(&g.y, qy);
        if !force_good {
            obs.class(match (okx, oky) {
                (true, true) => "2d:good",
                (false, true) => "2d:bad-x-only",
                (true, false) => "2d:bad-y-only",
                (false, false) => "2d:bad-both",
            });
            obs.class(cx.name());
            obs.class(cy.name());
        }
        (qx, qy, okx && oky, cx.special() || cy.special(), okx != oky)
    };
    let mut special = false;
    let mut one_bad = false;
    let mut qdesc = Vec::new();
    if ep <= 2 {
        let (qx, qy, expect, sp, one_axis) = point(src, obs, false);
        special = sp || one_axis;
        qdesc.push(format!("({:e},{:e})", qx.f(), qy.f()));
        let got: Result<Result<Option<Arr<T>>, String>, String> = catch(|| match ep {
            0 => interp.t_scalar(qx, qy).unwrap().map(|_| None),
            1 => interp.t_interp(qx, qy).map(Some),
            _ => {
                let mut buf = ArrayD::from_elem(IxDyn(&g.trailing), poison::<T>());
                interp.t_interp_into(qx, qy, buf.view_mut()).unwrap().map(|_| Some(to_arr(&buf)))
            }
        });
        obs.asserts += 1;
        match got {
            Err(p) => fail!("panic/2d", "T={} Bilinear {epn}({:e},{:e}) panicked: {p}", T::NAME, qx.f(), qy.f()),
            Ok(Ok(a)) => {
                if !expect {
                    fail!(format!("answered-out-of-range/2d/{}", if one_axis { "one-axis" } else { "both" }), "T={} Bilinear {epn}({:e},{:e}) answered; x range [{:e},{:e}], y range [{:e},{:e}]", T::NAME, qx.f(), qy.f(), g.x[0], g.x[g.nx - 1], g.y[0], g.y[g.ny - 1]);
                }
                if let Some(a) = a {
                    if a.shape != g.trailing {
                        fail!("result-shape", "{epn}: shape {:?}, expected {:?}", a.shape, g.trailing);
                    }
                }
            }
            Ok(Err(_)) => {
                if expect {
                    fail!("rejected-in-range/2d", "T={} Bilinear {epn}({:e},{:e}) rejected; x range [{:e},{:e}], y range [{:e},{:e}]", T::NAME, qx.f(), qy.f(), g.x[0], g.x[g.nx - 1], g.y[0], g.y[g.ny - 1]);
                }
            }
        }
    } else {
        let qd = src.pick(&[QDim::S0, QDim::S1, QDim::S1, QDim::S2, QDim::S3, QDim::Dyn]);
        let rank = qd.static_rank().unwrap_or_else(|| src.usize_in(0, 3));
        let shape = qshape(src, rank);
        let len = product(&shape);
        obs.class(format!("qdim:{}", qd.name()));
        let mut xs = Vec::new();
        let mut ys = Vec::new();
        for _ in 0..len {
            let (a, b, _, sp, _) = point(src, obs, true);
            special |= sp;
            xs.push(a);
            ys.push(b);
        }
        let nbad = if len == 0 { 0 } else { [0usize, 1, 1, 1, 2][src.below(5) as usize].min(len) };
        for _ in 0..nbad {
            let pos = match src.below(4) {
                0 => 0,
                1 => len - 1,
                _ => src.below(len as u64) as usize,
            };
            let (a, b, _, sp, _) = point(src, obs, false);
            special |= sp;
            xs[pos] = a;
            ys[pos] = b;
            qdesc.push(format!("({:e},{:e}) at {pos}/{len}", a.f(), b.f()));
        }
        let bad_count = (0..len).filter(|&k| !(in_closed::<T>(&g.x, xs[k]) && in_closed::<T>(&g.y, ys[k]))).count();
        let expect = bad_count == 0;
        one_bad = bad_count == 1;
        obs.class(match bad_count {
            0 => "batch:all-good",
            1 => "batch:one-bad",
            _ => "batch:several-bad",
        });
        let xa = ArrayD::from_shape_vec(IxDyn(&shape), xs).unwrap();
        let ya = ArrayD::from_shape_vec(IxDyn(&shape), ys).unwrap();
        let mut want = shape.clone();
        want.extend_from_slice(&g.trailing);
        let got: Result<Result<Arr<T>, String>, String> = catch(|| {
            if ep == 3 {
                interp.t_array(xa.view(), ya.view(), qd).unwrap()
            } else {
                let mut buf = ArrayD::from_elem(IxDyn(&want), poison::<T>());
                interp.t_array_into(xa.view(), ya.view(), qd, buf.view_mut()).unwrap().map(|_| to_arr(&buf))
            }
        });
        obs.asserts += 1;
        match got {
            Err(p) => fail!("panic/2d-batch", "T={} Bilinear {epn} shape {:?} panicked: {p}", T::NAME, shape),
            Ok(Ok(a)) => {
                if !expect {
                    fail!(format!("answered-out-of-range/2d-batch{}", if one_bad { "-one-bad" } else { "" }), "T={} Bilinear {epn} query shape {:?} with {bad_count} out-of-range point(s) {:?} returned Ok", T::NAME, shape, qdesc);
                }
                if a.shape != want {
                    fail!("result-shape", "{epn}: shape {:?}, expected {:?}", a.shape, want);
                }
            }
            Ok(Err(_)) => {
                if expect {
                    fail!("rejected-in-range/2d-batch", "T={} Bilinear {epn} query shape {:?} all in range was rejected", T::NAME, shape);
                }
            }
        }
    }
    obs.nontrivial = special || one_bad;
    if obs.nontrivial {
        g.key(obs);
        obs.key(&format!("{epn}{qdesc:?}"));
    }
    obs.describe(|| {
        let mut d = g.describe::<T>();
        d["entry"] = json!(epn);
        d["query"] = json!(qdesc);
        d
    });
    Ok(())
}
