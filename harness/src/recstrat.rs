//! Recording / failing custom strategies (C10, C18).

use crate::adapt::{DDim, I1, I2};
use crate::gen::Flt;
use ndarray::{Array1, ArrayBase, ArrayD, ArrayViewMut, Data, Dimension, Ix1, Ix2, Ix3, Ix4, IxDyn, RemoveAxis};
use ndarray_interp::interp1d::{Interp1D, Interp1DBuilder, Interp1DStrategy, Interp1DStrategyBuilder};
use ndarray_interp::interp2d::{Interp2D, Interp2DBuilder, Interp2DStrategy, Interp2DStrategyBuilder};
use ndarray_interp::{BuilderError, InterpolateError};
use std::marker::PhantomData;
use std::sync::atomic::{AtomicUsize, Ordering};
use std::sync::{Arc, Mutex};

pub trait MinMarker: Send + Sync + 'static {
    const MIN: usize;
}
pub struct M0;
pub struct M1;
pub struct M2;
pub struct M3;
pub struct M4;
impl MinMarker for M0 {
    const MIN: usize = 0;
}
impl MinMarker for M1 {
    const MIN: usize = 1;
}
impl MinMarker for M2 {
    const MIN: usize = 2;
}
impl MinMarker for M3 {
    const MIN: usize = 3;
}
impl MinMarker for M4 {
    const MIN: usize = 4;
}

#[derive(Clone, Debug, PartialEq)]
pub enum Call {
    Build { x: Vec<u64>, y: Vec<u64>, data_shape: Vec<usize> },
    Interp { q: u64, q2: u64, target_shape: Vec<usize> },
}

pub type Log = Arc<Mutex<Vec<Call>>>;

#[derive(Clone, Copy, Debug, PartialEq, Eq)]
pub enum BKind {
    NotEnoughData,
    Monotonic,
    ShapeError,
    ValueError,
}

impl BKind {
    pub fn of(e: &BuilderError) -> BKind {
        match e {
            BuilderError::NotEnoughData(_) => BKind::NotEnoughData,
            BuilderError::Monotonic(_) => BKind::Monotonic,
            BuilderError::ShapeError(_) => BKind::ShapeError,
            BuilderError::ValueError(_) => BKind::ValueError,
        }
    }
    pub fn make(self, msg: String) -> BuilderError {
        match self {
            BKind::NotEnoughData => BuilderError::NotEnoughData(msg),
            BKind::Monotonic => BuilderError::Monotonic(msg),
            BKind::ShapeError => BuilderError::ShapeError(msg),
            BKind::ValueError => BuilderError::ValueError(msg),
        }
    }
    pub const ALL: [BKind; 4] = [BKind::NotEnoughData, BKind::Monotonic, BKind::ShapeError, BKind::ValueError];
}

/// value a recording strategy writes for (query, lane index): identifies both
pub fn rec_value<T: Flt>(q: T, q2: T, lane: usize) -> T {
    let h = crate::common::splitmix(q.key() ^ q2.key().rotate_left(17)) % 4096;
    T::of(h as f64 + (lane % 16) as f64 / 16.0)
}

pub struct RecB<M> {
    pub log: Log,
    pub fail_build: Option<(BKind, String)>,
    /// fail the k-th (0-based) interp_into call with this marker
    pub fail_at: Option<(usize, String)>,
    pub _m: PhantomData<M>,
}

pub struct Rec<M> {
    log: Log,
    fail_at: Option<(usize, String)>,
    calls: AtomicUsize,
    _m: PhantomData<M>,
}

impl<M> RecB<M> {
    pub fn new(log: Log) -> Self {
        RecB { log, fail_build: None, fail_at: None, _m: PhantomData }
    }
}

impl<M> Rec<M> {
    pub fn reset_calls(&self) {
        self.calls.store(0, Ordering::SeqCst);
    }
}

impl<T, Sd, Sx, D, M> Interp1DStrategyBuilder<Sd, Sx, D> for RecB<M>
where
    T: Flt,
    Sd: Data<Elem = T>,
    Sx: Data<Elem = T>,
    D: Dimension + RemoveAxis,
    M: MinMarker,
{
    const MINIMUM_DATA_LENGHT: usize = M::MIN;
    type FinishedStrat = Rec<M>;
    fn build<Sx2>(self, x: &ArrayBase<Sx2, Ix1>, data: &ArrayBase<Sd, D>) -> Result<Self::FinishedStrat, BuilderError>
    where
        Sx2: Data<Elem = T>,
    {
        self.log.lock().unwrap().push(Call::Build { x: x.iter().map(|v| v.key()).collect(), y: vec![], data_shape: data.shape().to_vec() });
        if let Some((k, m)) = self.fail_build {
            return Err(k.make(m));
        }
        Ok(Rec { log: self.log, fail_at: self.fail_at, calls: AtomicUsize::new(0), _m: PhantomData })
    }
}

impl<T, Sd, Sx, D, M> Interp1DStrategy<Sd, Sx, D> for Rec<M>
where
    T: Flt,
    Sd: Data<Elem = T>,
    Sx: Data<Elem = T>,
    D: Dimension + RemoveAxis,
    M: MinMarker,
{
    fn interp_into(&self, _i: &Interp1D<Sd, Sx, D, Self>, mut target: ArrayViewMut<'_, T, D::Smaller>, x: T) -> Result<(), InterpolateError> {
        let k = self.calls.fetch_add(1, Ordering::SeqCst);
        self.log.lock().unwrap().push(Call::Interp { q: x.key(), q2: 0, target_shape: target.shape().to_vec() });
        if let Some((at, m)) = &self.fail_at {
            if *at == k {
                return Err(InterpolateError::OutOfBounds(m.clone()));
            }
        }
        for (lane, t) in target.iter_mut().enumerate() {
            *t = rec_value::<T>(x, T::zero(), lane);
        }
        Ok(())
    }
}

impl<T, Sd, Sx, Sy, D, M> Interp2DStrategyBuilder<Sd, Sx, Sy, D> for RecB<M>
where
    T: Flt,
    Sd: Data<Elem = T>,
    Sx: Data<Elem = T>,
    Sy: Data<Elem = T>,
    D: Dimension + RemoveAxis,
    D::Smaller: RemoveAxis,
    M: MinMarker,
{
    const MINIMUM_DATA_LENGHT: usize = M::MIN;
    type FinishedStrat = Rec<M>;
    fn build(self, x: &ArrayBase<Sx, Ix1>, y: &ArrayBase<Sy, Ix1>, data: &ArrayBase<Sd, D>) -> Result<Self::FinishedStrat, BuilderError> {
        self.log.lock().unwrap().push(Call::Build {
            x: x.iter().map(|v| v.key()).collect(),
            y: y.iter().map(|v| v.key()).collect(),
            data_shape: data.shape().to_vec(),
        });
        if let Some((k, m)) = self.fail_build {
            return Err(k.make(m));
        }
        Ok(Rec { log: self.log, fail_at: self.fail_at, calls: AtomicUsize::new(0), _m: PhantomData })
    }
}

impl<T, Sd, Sx, Sy, D, M> Interp2DStrategy<Sd, Sx, Sy, D> for Rec<M>
where
    T: Flt,
    Sd: Data<Elem = T>,
    Sx: Data<Elem = T>,
    Sy: Data<Elem = T>,
    D: Dimension + RemoveAxis,
    D::Smaller: RemoveAxis,
    M: MinMarker,
{
    fn interp_into(
        &self,
        _i: &Interp2D<Sd, Sx, Sy, D, Self>,
        mut target: ArrayViewMut<'_, T, <D::Smaller as Dimension>::Smaller>,
        x: T,
        y: T,
    ) -> Result<(), InterpolateError> {
        let k = self.calls.fetch_add(1, Ordering::SeqCst);
        self.log.lock().unwrap().push(Call::Interp { q: x.key(), q2: y.key(), target_shape: target.shape().to_vec() });
        if let Some((at, m)) = &self.fail_at {
            if *at == k {
                return Err(InterpolateError::OutOfBounds(m.clone()));
            }
        }
        for (lane, t) in target.iter_mut().enumerate() {
            *t = rec_value::<T>(x, y, lane);
        }
        Ok(())
    }
}

crate::impl_i1!(Ix1, Rec<M>, yes, M: crate::recstrat::MinMarker);
crate::impl_i1!(Ix2, Rec<M>, no, M: crate::recstrat::MinMarker);
crate::impl_i1!(Ix3, Rec<M>, no, M: crate::recstrat::MinMarker);
crate::impl_i1!(Ix4, Rec<M>, no, M: crate::recstrat::MinMarker);
crate::impl_i1!(IxDyn, Rec<M>, no, M: crate::recstrat::MinMarker);
crate::impl_i2!(Ix2, Rec<M>, yes, M: crate::recstrat::MinMarker);
crate::impl_i2!(Ix3, Rec<M>, no, M: crate::recstrat::MinMarker);
crate::impl_i2!(Ix4, Rec<M>, no, M: crate::recstrat::MinMarker);
crate::impl_i2!(IxDyn, Rec<M>, no, M: crate::recstrat::MinMarker);

/// Build a 1-D interpolator with a recording strategy. `min` selects the marker type.
/// None: data not expressible in `dd` (supported: Ix1..Ix4, IxDyn).
pub fn build1_rec<T: Flt>(
    x: Option<Array1<T>>,
    data: ArrayD<T>,
    dd: DDim,
    min: usize,
    log: Log,
    fail_build: Option<(BKind, String)>,
    fail_at: Option<(usize, String)>,
) -> Option<Result<Box<dyn I1<T>>, BuilderError>> {
    macro_rules! go2 {
        ($D:ty, $M:ty) => {{
            let data = data.into_dimensionality::<$D>().ok()?;
            let rb: RecB<$M> = RecB { log, fail_build, fail_at, _m: PhantomData };
            let b = Interp1DBuilder::new(data).strategy(rb);
            Some(match x {
                Some(x) => b.x(x).build().map(|i| Box::new(i) as Box<dyn I1<T>>),
                None => b.build().map(|i| Box::new(i) as Box<dyn I1<T>>),
            })
        }};
    }
    macro_rules! go {
        ($D:ty) => {
            match min {
                0 => go2!($D, M0),
                1 => go2!($D, M1),
                2 => go2!($D, M2),
                3 => go2!($D, M3),
                _ => go2!($D, M4),
            }
        };
    }
    match dd {
        DDim::S1 => go!(Ix1),
        DDim::S2 => go!(Ix2),
        DDim::S3 => go!(Ix3),
        DDim::S4 => go!(Ix4),
        DDim::Dyn => go!(IxDyn),
        _ => None,
    }
}

pub fn build2_rec<T: Flt>(
    x: Option<Array1<T>>,
    y: Option<Array1<T>>,
    data: ArrayD<T>,
    dd: DDim,
    min: usize,
    log: Log,
    fail_build: Option<(BKind, String)>,
    fail_at: Option<(usize, String)>,
) -> Option<Result<Box<dyn I2<T>>, BuilderError>> {
    build2_rec_any::<T, ndarray::OwnedRepr<T>>(x, y, data, dd, min, log, fail_build, fail_at)
}

/// the same with the axes in any storage (e.g. shared arrays that alias each other)
pub fn build2_rec_any<T: Flt, SA: ndarray::Data<Elem = T> + 'static>(
    x: Option<ndarray::ArrayBase<SA, ndarray::Ix1>>,
    y: Option<ndarray::ArrayBase<SA, ndarray::Ix1>>,
    data: ArrayD<T>,
    dd: DDim,
    min: usize,
    log: Log,
    fail_build: Option<(BKind, String)>,
    fail_at: Option<(usize, String)>,
) -> Option<Result<Box<dyn I2<T>>, BuilderError>> {
    macro_rules! go2 {
        ($D:ty, $M:ty) => {{
            let data = data.into_dimensionality::<$D>().ok()?;
            let rb: RecB<$M> = RecB { log, fail_build, fail_at, _m: PhantomData };
            let b = Interp2DBuilder::new(data).strategy(rb);
            Some(match (x, y) {
                (Some(x), Some(y)) => b.x(x).y(y).build().map(|i| Box::new(i) as Box<dyn I2<T>>),
                (Some(x), None) => b.x(x).build().map(|i| Box::new(i) as Box<dyn I2<T>>),
                (None, Some(y)) => b.y(y).build().map(|i| Box::new(i) as Box<dyn I2<T>>),
                (None, None) => b.build().map(|i| Box::new(i) as Box<dyn I2<T>>),
            })
        }};
    }
    macro_rules! go {
        ($D:ty) => {
            match min {
                0 => go2!($D, M0),
                1 => go2!($D, M1),
                2 => go2!($D, M2),
                3 => go2!($D, M3),
                _ => go2!($D, M4),
            }
        };
    }
    match dd {
        DDim::S2 => go!(Ix2),
        DDim::S3 => go!(Ix3),
        DDim::S4 => go!(Ix4),
        DDim::Dyn => go!(IxDyn),
        _ => None,
    }
}
