//! Memory layouts: build an owned array with a requested layout whose logical contents are given.

use crate::common::Src;
use ndarray::{ArrayD, Axis, IxDyn, ShapeBuilder, Slice};

#[derive(Clone, Copy, Debug, PartialEq, Eq, Hash)]
pub enum Layout {
    /// standard (C order)
    C,
    /// Fortran order
    F,
    /// every k-th element of a larger array along every axis (k in 2..3), with an offset
    Strided,
    /// one or more axes with negative stride
    Reversed,
    /// axes permuted in storage
    Permuted,
}

impl Layout {
    pub fn name(self) -> &'static str {
        match self {
            Layout::C => "C",
            Layout::F => "F",
            Layout::Strided => "strided",
            Layout::Reversed => "reversed",
            Layout::Permuted => "permuted",
        }
    }
    pub fn pick(src: &mut Src) -> Layout {
        [Layout::C, Layout::F, Layout::Strided, Layout::Reversed, Layout::Permuted][src.below(5) as usize]
    }
    pub fn pick_nonstandard(src: &mut Src) -> Layout {
        [Layout::F, Layout::Strided, Layout::Reversed, Layout::Permuted][src.below(4) as usize]
    }
}

/// An owned array of logical shape `shape` with the requested layout, filled with `fill`.
/// The returned array *is* the window; for `Strided` its storage is larger and the surrounding
/// elements are also `fill` (see `frame_len`).
pub fn blank<T: Clone>(shape: &[usize], layout: Layout, fill: T, src: &mut Src) -> ArrayD<T> {
    match layout {
        Layout::C => ArrayD::from_elem(IxDyn(shape), fill),
        Layout::F => ArrayD::from_elem(IxDyn(shape).f(), fill),
        Layout::Strided => {
            let ks: Vec<usize> = shape.iter().map(|_| 2 + src.below(2) as usize).collect();
            let offs: Vec<usize> = shape.iter().map(|_| src.below(2) as usize).collect();
            let big: Vec<usize> = shape.iter().zip(&ks).zip(&offs).map(|((&l, &k), &o)| o + l * k + 1).collect();
            let mut a = ArrayD::from_elem(IxDyn(&big), fill);
            for (ax, ((&l, &k), &o)) in shape.iter().zip(&ks).zip(&offs).enumerate() {
                let end = if l == 0 { o } else { o + (l - 1) * k + 1 };
                a.slice_axis_inplace(Axis(ax), Slice::new(o as isize, Some(end as isize), k as isize));
            }
            debug_assert_eq!(a.shape(), shape);
            a
        }
        Layout::Reversed => {
            let mut a = ArrayD::from_elem(IxDyn(shape), fill);
            let mut any = false;
            for ax in 0..shape.len() {
                if src.bool() {
                    a.invert_axis(Axis(ax));
                    any = true;
                }
            }
            if !any && !shape.is_empty() {
                a.invert_axis(Axis(shape.len() - 1));
            }
            a
        }
        Layout::Permuted => {
            let r = shape.len();
            if r < 2 {
                return blank(shape, Layout::Reversed, fill, src);
            }
            // storage shape = shape permuted by p; logical = storage.permuted_axes(inverse)
            let mut p: Vec<usize> = (0..r).collect();
            // rotate by a generated amount, then maybe swap the first two
            let rot = 1 + src.below(r as u64 - 1) as usize;
            p.rotate_left(rot);
            let st: Vec<usize> = p.iter().map(|&i| shape[i]).collect();
            let a = ArrayD::from_elem(IxDyn(&st), fill);
            // axis j of storage holds logical axis p[j]; we need logical axis i at position i
            let mut inv = vec![0usize; r];
            for (j, &i) in p.iter().enumerate() {
                inv[i] = j;
            }
            let a = a.permuted_axes(IxDyn(&inv));
            debug_assert_eq!(a.shape(), shape);
            a
        }
    }
}

/// An owned array with the requested layout holding the logical contents of `logical`.
pub fn with_layout<T: Clone>(logical: &ArrayD<T>, layout: Layout, junk: T, src: &mut Src) -> ArrayD<T> {
    let mut a = blank(logical.shape(), layout, junk, src);
    a.assign(logical);
    a
}

/// memory layout chosen for a case: the layout and the entropy that fixes its strides / permutation
pub type Lay = (Layout, u64);

pub const LAY_C: Lay = (Layout::C, 0);

/// generator: standard layout in 3 of 4 cases
pub fn pick_lay(src: &mut Src) -> Lay {
    if src.chance(1, 4) {
        (Layout::pick_nonstandard(src), src.next())
    } else {
        LAY_C
    }
}

/// owned array with the logical contents of `logical` in the chosen layout
pub fn realise<T: Clone>(logical: ArrayD<T>, lay: Lay, junk: T) -> ArrayD<T> {
    if lay.0 == Layout::C {
        return logical;
    }
    let ent = [lay.1, lay.1.rotate_left(17) ^ 0x9E37_79B9_7F4A_7C15, lay.1.rotate_left(31), lay.1.rotate_left(47), !lay.1, lay.1 ^ 0xABCD, lay.1 >> 3, lay.1 << 5];
    let mut s = Src::new(&ent);
    with_layout(&logical, lay.0, junk, &mut s)
}

/// 1-D variant of `realise` (axes): reversed strides or every-k-th slice
pub fn realise1<T: Clone>(logical: ndarray::Array1<T>, lay: Lay, junk: T) -> ndarray::Array1<T> {
    realise(logical.into_dyn(), lay, junk).into_dimensionality().expect("1-d layout")
}

/// deterministic layout choice derived from the content of an array (for helpers without an entropy source):
/// non-standard in 1 of 4 cases
pub fn lay_from_hash(h: u64) -> Lay {
    let h = crate::common::splitmix(h);
    if h % 4 != 0 {
        return LAY_C;
    }
    ([Layout::F, Layout::Strided, Layout::Reversed, Layout::Permuted][((h >> 8) % 4) as usize], h >> 16)
}

pub fn is_standard<T>(a: &ArrayD<T>) -> bool {
    a.is_standard_layout()
}
