//! Type-erasing adapters over the concrete instantiations of `Interp1D` / `Interp2D`.
//!
//! `DimExtension` (a bound of `interp_array*`) is private to the crate under test, so no
//! function outside it can be generic over the data dimension type and still call those entry
//! points. The adapters are therefore macro-expanded for every concrete dimension type and
//! expose object-safe traits (`I1`, `I2`) that work with dynamic shapes.

use crate::gen::Flt;
use ndarray::{
    Array, Array1, ArrayD, ArrayView1, ArrayViewD, ArrayViewMutD, Data, DimAdd, Dimension, Ix0, Ix1, Ix2,
    Ix3, Ix4, Ix5, Ix6, IxDyn,
};
use ndarray_interp::interp1d::cubic_spline::{
    BoundaryCondition, CubicSpline, CubicSplineStrategy, RowBoundary,
};
use ndarray_interp::interp1d::{Interp1D, Interp1DBuilder, Linear};
use ndarray_interp::interp2d::{Bilinear, Interp2D, Interp2DBuilder};
use ndarray_interp::BuilderError;

/// A result array in logical (row-major) order.
#[derive(Clone, Debug, PartialEq)]
pub struct Arr<T> {
    pub shape: Vec<usize>,
    pub v: Vec<T>,
}

pub fn to_arr<T: Clone, S: Data<Elem = T>, D: Dimension>(a: &ndarray::ArrayBase<S, D>) -> Arr<T> {
    Arr { shape: a.shape().to_vec(), v: a.iter().cloned().collect() }
}

/// dimension type of a query array
#[derive(Clone, Copy, Debug, PartialEq, Eq, Hash)]
pub enum QDim {
    S0,
    S1,
    S2,
    S3,
    S4,
    Dyn,
}

impl QDim {
    pub fn name(self) -> &'static str {
        match self {
            QDim::S0 => "Ix0",
            QDim::S1 => "Ix1",
            QDim::S2 => "Ix2",
            QDim::S3 => "Ix3",
            QDim::S4 => "Ix4",
            QDim::Dyn => "IxDyn",
        }
    }
    pub fn of_rank(r: usize) -> QDim {
        match r {
            0 => QDim::S0,
            1 => QDim::S1,
            2 => QDim::S2,
            3 => QDim::S3,
            4 => QDim::S4,
            _ => QDim::Dyn,
        }
    }
    pub fn static_rank(self) -> Option<usize> {
        match self {
            QDim::S0 => Some(0),
            QDim::S1 => Some(1),
            QDim::S2 => Some(2),
            QDim::S3 => Some(3),
            QDim::S4 => Some(4),
            QDim::Dyn => None,
        }
    }
}

/// dimension type of the data array
#[derive(Clone, Copy, Debug, PartialEq, Eq, Hash)]
pub enum DDim {
    S1,
    S2,
    S3,
    S4,
    S5,
    S6,
    Dyn,
}

impl DDim {
    pub fn name(self) -> &'static str {
        match self {
            DDim::S1 => "Ix1",
            DDim::S2 => "Ix2",
            DDim::S3 => "Ix3",
            DDim::S4 => "Ix4",
            DDim::S5 => "Ix5",
            DDim::S6 => "Ix6",
            DDim::Dyn => "IxDyn",
        }
    }
    pub fn of_rank(r: usize) -> DDim {
        match r {
            1 => DDim::S1,
            2 => DDim::S2,
            3 => DDim::S3,
            4 => DDim::S4,
            5 => DDim::S5,
            6 => DDim::S6,
            _ => DDim::Dyn,
        }
    }
}

/// Err = the InterpolateError (only kind: OutOfBounds) rendered as text
pub type R<X> = Result<X, String>;

pub trait I1<T: Flt> {
    /// None when the data is not statically 1-D
    fn t_scalar(&self, q: T) -> Option<R<T>>;
    fn t_interp(&self, q: T) -> R<Arr<T>>;
    /// None when the buffer rank cannot be expressed in the static buffer type
    fn t_interp_into(&self, q: T, buf: ArrayViewMutD<'_, T>) -> Option<R<()>>;
    fn t_array(&self, q: ArrayViewD<'_, T>, qd: QDim) -> Option<R<Arr<T>>>;
    /// same as t_array but passes an owned query array (layout preserved)
    fn t_array_owned(&self, q: ArrayD<T>, qd: QDim) -> Option<R<Arr<T>>>;
    fn t_array_into(&self, q: ArrayViewD<'_, T>, qd: QDim, buf: ArrayViewMutD<'_, T>) -> Option<R<()>>;
    fn t_index_point(&self, i: usize) -> (T, Arr<T>);
    fn t_index_left_of(&self, q: T) -> usize;
    fn t_in_range(&self, q: T) -> bool;
}

#[macro_export]
macro_rules! impl_i1 {
    (@scalar yes, $s:ident, $q:ident) => { Some($s.interp_scalar($q).map_err(|e| e.to_string())) };
    (@scalar no, $s:ident, $q:ident) => {{ let _ = $q; None }};
    ($D:ty, $Strat:ty, $sc:tt $(, $g:ident : $b:path)*) => {
        impl<T, Sd, Sx $(, $g)*> $crate::adapt::I1<T> for ndarray_interp::interp1d::Interp1D<Sd, Sx, $D, $Strat>
        where
            T: $crate::gen::Flt,
            Sd: ndarray::Data<Elem = T>,
            Sx: ndarray::Data<Elem = T>,
            $($g: $b,)*
        {
            fn t_scalar(&self, q: T) -> Option<$crate::adapt::R<T>> {
                $crate::impl_i1!(@scalar $sc, self, q)
            }
            fn t_interp(&self, q: T) -> $crate::adapt::R<$crate::adapt::Arr<T>> {
                self.interp(q).map(|a| $crate::adapt::to_arr(&a)).map_err(|e| e.to_string())
            }
            fn t_interp_into(&self, q: T, buf: ndarray::ArrayViewMutD<'_, T>) -> Option<$crate::adapt::R<()>> {
                let b = buf.into_dimensionality::<<$D as ndarray::Dimension>::Smaller>().ok()?;
                Some(self.interp_into(q, b).map_err(|e| e.to_string()))
            }
            fn t_array(
                &self,
                q: ndarray::ArrayViewD<'_, T>,
                qd: $crate::adapt::QDim,
            ) -> Option<$crate::adapt::R<$crate::adapt::Arr<T>>> {
                use ndarray::*;
                use $crate::adapt::QDim;
                macro_rules! go {
                    ($Dq:ty) => {{
                        let qv = q.into_dimensionality::<$Dq>().ok()?;
                        Some(self.interp_array(&qv).map(|a| $crate::adapt::to_arr(&a)).map_err(|e| e.to_string()))
                    }};
                }
                match qd {
                    QDim::S0 => go!(Ix0),
                    QDim::S1 => go!(Ix1),
                    QDim::S2 => go!(Ix2),
                    QDim::S3 => go!(Ix3),
                    QDim::S4 => go!(Ix4),
                    QDim::Dyn => go!(IxDyn),
                }
            }
            fn t_array_owned(
                &self,
                q: ndarray::ArrayD<T>,
                qd: $crate::adapt::QDim,
            ) -> Option<$crate::adapt::R<$crate::adapt::Arr<T>>> {
                use ndarray::*;
                use $crate::adapt::QDim;
                macro_rules! go {
                    ($Dq:ty) => {{
                        let qv = q.into_dimensionality::<$Dq>().ok()?;
                        Some(self.interp_array(&qv).map(|a| $crate::adapt::to_arr(&a)).map_err(|e| e.to_string()))
                    }};
                }
                match qd {
                    QDim::S0 => go!(Ix0),
                    QDim::S1 => go!(Ix1),
                    QDim::S2 => go!(Ix2),
                    QDim::S3 => go!(Ix3),
                    QDim::S4 => go!(Ix4),
                    QDim::Dyn => go!(IxDyn),
                }
            }
            fn t_array_into(
                &self,
                q: ndarray::ArrayViewD<'_, T>,
                qd: $crate::adapt::QDim,
                buf: ndarray::ArrayViewMutD<'_, T>,
            ) -> Option<$crate::adapt::R<()>> {
                use ndarray::*;
                use $crate::adapt::QDim;
                macro_rules! go {
                    ($Dq:ty) => {{
                        let qv = q.into_dimensionality::<$Dq>().ok()?;
                        let b = buf
                            .into_dimensionality::<<$Dq as DimAdd<<$D as Dimension>::Smaller>>::Output>()
                            .ok()?;
                        Some(self.interp_array_into(&qv, b).map_err(|e| e.to_string()))
                    }};
                }
                match qd {
                    QDim::S0 => go!(Ix0),
                    QDim::S1 => go!(Ix1),
                    QDim::S2 => go!(Ix2),
                    QDim::S3 => go!(Ix3),
                    QDim::S4 => go!(Ix4),
                    QDim::Dyn => go!(IxDyn),
                }
            }
            fn t_index_point(&self, i: usize) -> (T, $crate::adapt::Arr<T>) {
                let (x, v) = self.index_point(i);
                (x, $crate::adapt::to_arr(&v))
            }
            fn t_index_left_of(&self, q: T) -> usize {
                self.get_index_left_of(q)
            }
            fn t_in_range(&self, q: T) -> bool {
                self.is_in_range(q)
            }
        }
    };
}

impl_i1!(Ix1, Linear, yes);
impl_i1!(Ix2, Linear, no);
impl_i1!(Ix3, Linear, no);
impl_i1!(Ix4, Linear, no);
impl_i1!(Ix5, Linear, no);
impl_i1!(Ix6, Linear, no);
impl_i1!(IxDyn, Linear, no);
impl_i1!(Ix1, CubicSplineStrategy<Sd, Ix1>, yes);
impl_i1!(Ix2, CubicSplineStrategy<Sd, Ix2>, no);
impl_i1!(Ix3, CubicSplineStrategy<Sd, Ix3>, no);
impl_i1!(Ix4, CubicSplineStrategy<Sd, Ix4>, no);
impl_i1!(Ix5, CubicSplineStrategy<Sd, Ix5>, no);
impl_i1!(Ix6, CubicSplineStrategy<Sd, Ix6>, no);
impl_i1!(IxDyn, CubicSplineStrategy<Sd, IxDyn>, no);

pub trait I2<T: Flt> {
    fn t_scalar(&self, x: T, y: T) -> Option<R<T>>;
    fn t_interp(&self, x: T, y: T) -> R<Arr<T>>;
    fn t_interp_into(&self, x: T, y: T, buf: ArrayViewMutD<'_, T>) -> Option<R<()>>;
    fn t_array(&self, xs: ArrayViewD<'_, T>, ys: ArrayViewD<'_, T>, qd: QDim) -> Option<R<Arr<T>>>;
    fn t_array_owned(&self, xs: ArrayD<T>, ys: ArrayD<T>, qd: QDim) -> Option<R<Arr<T>>>;
    fn t_array_into(
        &self,
        xs: ArrayViewD<'_, T>,
        ys: ArrayViewD<'_, T>,
        qd: QDim,
        buf: ArrayViewMutD<'_, T>,
    ) -> Option<R<()>>;
    fn t_index_point(&self, i: usize, j: usize) -> (T, T, Arr<T>);
    fn t_index_left_of(&self, x: T, y: T) -> (usize, usize);
    fn t_in_x_range(&self, x: T) -> bool;
    fn t_in_y_range(&self, y: T) -> bool;
}

#[macro_export]
macro_rules! impl_i2 {
    (@scalar yes, $s:ident, $x:ident, $y:ident) => { Some($s.interp_scalar($x, $y).map_err(|e| e.to_string())) };
    (@scalar no, $s:ident, $x:ident, $y:ident) => {{ let _ = ($x, $y); None }};
    ($D:ty, $Strat:ty, $sc:tt $(, $g:ident : $b:path)*) => {
        impl<T, Sd, Sx, Sy $(, $g)*> $crate::adapt::I2<T> for ndarray_interp::interp2d::Interp2D<Sd, Sx, Sy, $D, $Strat>
        where
            T: $crate::gen::Flt,
            Sd: ndarray::Data<Elem = T>,
            Sx: ndarray::Data<Elem = T>,
            Sy: ndarray::Data<Elem = T>,
            $($g: $b,)*
        {
            fn t_scalar(&self, x: T, y: T) -> Option<$crate::adapt::R<T>> {
                $crate::impl_i2!(@scalar $sc, self, x, y)
            }
            fn t_interp(&self, x: T, y: T) -> $crate::adapt::R<$crate::adapt::Arr<T>> {
                self.interp(x, y).map(|a| $crate::adapt::to_arr(&a)).map_err(|e| e.to_string())
            }
            fn t_interp_into(
                &self,
                x: T,
                y: T,
                buf: ndarray::ArrayViewMutD<'_, T>,
            ) -> Option<$crate::adapt::R<()>> {
                let b = buf
                    .into_dimensionality::<<<$D as ndarray::Dimension>::Smaller as ndarray::Dimension>::Smaller>()
                    .ok()?;
                Some(self.interp_into(x, y, b).map_err(|e| e.to_string()))
            }
            fn t_array(
                &self,
                xs: ndarray::ArrayViewD<'_, T>,
                ys: ndarray::ArrayViewD<'_, T>,
                qd: $crate::adapt::QDim,
            ) -> Option<$crate::adapt::R<$crate::adapt::Arr<T>>> {
                use ndarray::*;
                use $crate::adapt::QDim;
                macro_rules! go {
                    ($Dq:ty) => {{
                        let xv = xs.into_dimensionality::<$Dq>().ok()?;
                        let yv = ys.into_dimensionality::<$Dq>().ok()?;
                        Some(
                            self.interp_array(&xv, &yv)
                                .map(|a| $crate::adapt::to_arr(&a))
                                .map_err(|e| e.to_string()),
                        )
                    }};
                }
                match qd {
                    QDim::S0 => go!(Ix0),
                    QDim::S1 => go!(Ix1),
                    QDim::S2 => go!(Ix2),
                    QDim::S3 => go!(Ix3),
                    QDim::S4 => go!(Ix4),
                    QDim::Dyn => go!(IxDyn),
                }
            }
            fn t_array_owned(
                &self,
                xs: ndarray::ArrayD<T>,
                ys: ndarray::ArrayD<T>,
                qd: $crate::adapt::QDim,
            ) -> Option<$crate::adapt::R<$crate::adapt::Arr<T>>> {
                use ndarray::*;
                use $crate::adapt::QDim;
                macro_rules! go {
                    ($Dq:ty) => {{
                        let xv = xs.into_dimensionality::<$Dq>().ok()?;
                        let yv = ys.into_dimensionality::<$Dq>().ok()?;
                        Some(
                            self.interp_array(&xv, &yv)
                                .map(|a| $crate::adapt::to_arr(&a))
                                .map_err(|e| e.to_string()),
                        )
                    }};
                }
                match qd {
                    QDim::S0 => go!(Ix0),
                    QDim::S1 => go!(Ix1),
                    QDim::S2 => go!(Ix2),
                    QDim::S3 => go!(Ix3),
                    QDim::S4 => go!(Ix4),
                    QDim::Dyn => go!(IxDyn),
                }
            }
            fn t_array_into(
                &self,
                xs: ndarray::ArrayViewD<'_, T>,
                ys: ndarray::ArrayViewD<'_, T>,
                qd: $crate::adapt::QDim,
                buf: ndarray::ArrayViewMutD<'_, T>,
            ) -> Option<$crate::adapt::R<()>> {
                use ndarray::*;
                use $crate::adapt::QDim;
                macro_rules! go {
                    ($Dq:ty) => {{
                        let xv = xs.into_dimensionality::<$Dq>().ok()?;
                        let yv = ys.into_dimensionality::<$Dq>().ok()?;
                        let b = buf
                            .into_dimensionality::<<$Dq as DimAdd<
                                <<$D as Dimension>::Smaller as Dimension>::Smaller,
                            >>::Output>()
                            .ok()?;
                        Some(self.interp_array_into(&xv, &yv, b).map_err(|e| e.to_string()))
                    }};
                }
                match qd {
                    QDim::S0 => go!(Ix0),
                    QDim::S1 => go!(Ix1),
                    QDim::S2 => go!(Ix2),
                    QDim::S3 => go!(Ix3),
                    QDim::S4 => go!(Ix4),
                    QDim::Dyn => go!(IxDyn),
                }
            }
            fn t_index_point(&self, i: usize, j: usize) -> (T, T, $crate::adapt::Arr<T>) {
                let (x, y, v) = self.index_point(i, j);
                (x, y, $crate::adapt::to_arr(&v))
            }
            fn t_index_left_of(&self, x: T, y: T) -> (usize, usize) {
                self.get_index_left_of(x, y)
            }
            fn t_in_x_range(&self, x: T) -> bool {
                self.is_in_x_range(x)
            }
            fn t_in_y_range(&self, y: T) -> bool {
                self.is_in_y_range(y)
            }
        }
    };
}

impl_i2!(Ix2, Bilinear, yes);
impl_i2!(Ix3, Bilinear, no);
impl_i2!(Ix4, Bilinear, no);
impl_i2!(Ix5, Bilinear, no);
impl_i2!(Ix6, Bilinear, no);
impl_i2!(IxDyn, Bilinear, no);

// ---------------------------------------------------------------------------------------------
// Builders (owned storage). Other storage kinds are built where they are needed (C13, C19).
// ---------------------------------------------------------------------------------------------

/// Boundary selection in harness terms.
#[derive(Clone, Debug, PartialEq)]
pub enum Bc<T> {
    NotAKnot,
    Natural,
    Clamped,
    Periodic,
    /// shape must be (1, trailing dims) to be valid
    Individual(ArrayD<RowBoundary<T>>),
}

#[derive(Clone, Debug, PartialEq)]
pub enum Strat1<T> {
    Linear { extrapolate: bool },
    Spline { extrapolate: bool, bc: Bc<T> },
}

macro_rules! ddispatch {
    ($dd:expr, $go:ident) => {
        match $dd {
            DDim::S1 => $go!(Ix1),
            DDim::S2 => $go!(Ix2),
            DDim::S3 => $go!(Ix3),
            DDim::S4 => $go!(Ix4),
            DDim::S5 => $go!(Ix5),
            DDim::S6 => $go!(Ix6),
            DDim::Dyn => $go!(IxDyn),
        }
    };
}

fn conv_bc<T: Flt, D: Dimension>(bc: &Bc<T>) -> Option<BoundaryCondition<T, D>> {
    Some(match bc {
        Bc::NotAKnot => BoundaryCondition::NotAKnot,
        Bc::Natural => BoundaryCondition::Natural,
        Bc::Clamped => BoundaryCondition::Clamped,
        Bc::Periodic => BoundaryCondition::Periodic,
        Bc::Individual(a) => BoundaryCondition::Individual(a.clone().into_dimensionality::<D>().ok()?),
    })
}

macro_rules! def_build1 {
    ($name:ident, $gname:ident, $obj:ty) => {
        /// Build an owned 1-D interpolator. `x = None` uses the builder's default index axis.
        /// Returns None when `data` (or an Individual boundary array) cannot be expressed in the
        /// static dimension type `dd` (not a property of the crate, just not a well-typed call).
        pub fn $name<T: Flt>(x: Option<Array1<T>>, data: ArrayD<T>, dd: DDim, strat: &Strat1<T>) -> Option<Result<Box<$obj>, BuilderError>> {
            $gname::<T, ndarray::OwnedRepr<T>>(x, data, dd, strat)
        }
        /// the same for data in any storage (owned, shared, `'static` view)
        pub fn $gname<T: Flt, S: ndarray::Data<Elem = T> + Send + Sync + 'static>(
            x: Option<Array1<T>>,
            data: ndarray::ArrayBase<S, IxDyn>,
            dd: DDim,
            strat: &Strat1<T>,
        ) -> Option<Result<Box<$obj>, BuilderError>> {
            macro_rules! go {
                ($D:ty) => {{
                    let data = data.into_dimensionality::<$D>().ok()?;
                    match strat {
                        Strat1::Linear { extrapolate } => {
                            // the way the builder is obtained and the order of its calls are varied (a function of the data content)
                            let h = crate::common::splitmix(data.iter().next().map(|v| v.key()).unwrap_or(0) ^ (data.len() as u64) << 7);
                            let s = if h % 3 == 0 { Linear::new().extrapolate(!*extrapolate).extrapolate(*extrapolate) } else { Linear::new().extrapolate(*extrapolate) };
                            Some(match (x, h % 5) {
                                // an axis / strategy that is set and then replaced does not matter
                                (Some(x), 3) => Interp1DBuilder::new(data)
                                    .x(Array1::from_vec(vec![T::of(3.0), T::of(2.0), T::of(2.0)]))
                                    .strategy(Linear::new().extrapolate(!*extrapolate))
                                    .x(x)
                                    .strategy(s)
                                    .build()
                                    .map(|i| Box::new(i) as Box<$obj>),
                                (Some(x), 0) => Interp1D::builder(data).x(x).strategy(s).build().map(|i| Box::new(i) as Box<$obj>),
                                (Some(x), 1) => Interp1DBuilder::new(data).x(x).strategy(s).build().map(|i| Box::new(i) as Box<$obj>),
                                (Some(x), 2) if !*extrapolate => Interp1D::builder(data).x(x).build().map(|i| Box::new(i) as Box<$obj>),
                                (Some(x), _) => Interp1DBuilder::new(data).strategy(s).x(x).build().map(|i| Box::new(i) as Box<$obj>),
                                (None, 0) => Interp1D::builder(data).strategy(s).build().map(|i| Box::new(i) as Box<$obj>),
                                (None, 2) if !*extrapolate => Interp1D::builder(data).build().map(|i| Box::new(i) as Box<$obj>),
                                (None, _) => Interp1DBuilder::new(data).strategy(s).build().map(|i| Box::new(i) as Box<$obj>),
                            })
                        }
                        Strat1::Spline { extrapolate, bc } => {
                            // the order of the strategy-builder calls is varied (a function of the data content)
                            let bcv = conv_bc::<T, $D>(bc)?;
                            // ... and so are repeated setter calls: the last call wins, whatever was set before
                            let e = *extrapolate;
                            let s = match crate::common::splitmix(data.iter().next().map(|v| v.key()).unwrap_or(0) ^ data.len() as u64) % 7 {
                                0 | 1 => CubicSpline::<T, $D>::new().extrapolate(e).boundary(bcv),
                                2 | 3 => CubicSpline::<T, $D>::new().boundary(bcv).extrapolate(e),
                                4 => CubicSpline::<T, $D>::new().boundary(BoundaryCondition::Periodic).extrapolate(e).boundary(bcv),
                                5 => CubicSpline::<T, $D>::new().extrapolate(!e).boundary(BoundaryCondition::Clamped).extrapolate(e).boundary(bcv),
                                _ => CubicSpline::<T, $D>::new().extrapolate(true).boundary(BoundaryCondition::Periodic).boundary(bcv).extrapolate(e),
                            };
                            let h = crate::common::splitmix(data.len() as u64 ^ 0xB01D);
                            Some(match (x, h % 4) {
                                (Some(x), 3) => Interp1DBuilder::new(data).x(Array1::from_vec(vec![T::of(1.0), T::nan()])).strategy(Linear::new()).strategy(s).x(x).build().map(|i| Box::new(i) as Box<$obj>),
                                (Some(x), 0) => Interp1D::builder(data).x(x).strategy(s).build().map(|i| Box::new(i) as Box<$obj>),
                                (Some(x), 1) => Interp1DBuilder::new(data).x(x).strategy(s).build().map(|i| Box::new(i) as Box<$obj>),
                                (Some(x), _) => Interp1DBuilder::new(data).strategy(s).x(x).build().map(|i| Box::new(i) as Box<$obj>),
                                (None, 0) => Interp1D::builder(data).strategy(s).build().map(|i| Box::new(i) as Box<$obj>),
                                (None, _) => Interp1DBuilder::new(data).strategy(s).build().map(|i| Box::new(i) as Box<$obj>),
                            })
                        }
                    }
                }};
            }
            ddispatch!(dd, go)
        }
    };
}
def_build1!(build1, build1_any, dyn I1<T>);
def_build1!(build1_sync, build1_sync_any, dyn I1<T> + Send + Sync);

/// An interpolator built on `'static` views into heap blocks it keeps alive itself (field order = drop order:
/// the interpolator goes first).
pub struct Held<T: Flt> {
    interp: Box<dyn I1<T>>,
    _bases: Vec<Box<dyn std::any::Any>>,
}

impl<T: Flt> I1<T> for Held<T> {
    fn t_scalar(&self, q: T) -> Option<R<T>> {
        self.interp.t_scalar(q)
    }
    fn t_interp(&self, q: T) -> R<Arr<T>> {
        self.interp.t_interp(q)
    }
    fn t_interp_into(&self, q: T, buf: ArrayViewMutD<'_, T>) -> Option<R<()>> {
        self.interp.t_interp_into(q, buf)
    }
    fn t_array(&self, q: ArrayViewD<'_, T>, qd: QDim) -> Option<R<Arr<T>>> {
        self.interp.t_array(q, qd)
    }
    fn t_array_owned(&self, q: ArrayD<T>, qd: QDim) -> Option<R<Arr<T>>> {
        self.interp.t_array_owned(q, qd)
    }
    fn t_array_into(&self, q: ArrayViewD<'_, T>, qd: QDim, buf: ArrayViewMutD<'_, T>) -> Option<R<()>> {
        self.interp.t_array_into(q, qd, buf)
    }
    fn t_index_point(&self, i: usize) -> (T, Arr<T>) {
        self.interp.t_index_point(i)
    }
    fn t_index_left_of(&self, q: T) -> usize {
        self.interp.t_index_left_of(q)
    }
    fn t_in_range(&self, q: T) -> bool {
        self.interp.t_in_range(q)
    }
}

/// 1-D interpolator whose data is a *broadcast view* (stride 0 along every trailing axis) of `base` (shape
/// (n, 1, .., 1)) to `shape`: what a user gets from `y.view().insert_axis(..).broadcast(..)`.
pub fn build1_bcast<T: Flt>(x: Option<Array1<T>>, base: ArrayD<T>, shape: &[usize], dd: DDim, strat: &Strat1<T>) -> Option<Result<Box<dyn I1<T>>, BuilderError>> {
    let base = Box::new(base);
    // SAFETY: the view points into the heap block owned by `base`, which `Held` keeps alive (and never mutates or
    // moves out of its Box) for as long as the interpolator exists; the interpolator is dropped first.
    let v: ArrayViewD<'static, T> = unsafe { std::mem::transmute::<ArrayViewD<'_, T>, ArrayViewD<'static, T>>(base.broadcast(IxDyn(shape))?) };
    match build1_any::<T, ndarray::ViewRepr<&'static T>>(x, v, dd, strat)? {
        Ok(i) => Some(Ok(Box::new(Held { interp: i, _bases: vec![base as Box<dyn std::any::Any>] }) as Box<dyn I1<T>>)),
        Err(e) => Some(Err(e)),
    }
}

macro_rules! def_build2 {
    ($name:ident, $gname:ident, $obj:ty) => {
        /// Build an owned 2-D bilinear interpolator. Data dims Ix2..Ix6 / IxDyn.
        pub fn $name<T: Flt>(x: Option<Array1<T>>, y: Option<Array1<T>>, data: ArrayD<T>, dd: DDim, extrapolate: bool) -> Option<Result<Box<$obj>, BuilderError>> {
            $gname::<T, ndarray::OwnedRepr<T>>(x, y, data, dd, extrapolate)
        }
        /// the same with the axes in any storage (e.g. shared arrays that alias each other)
        pub fn $gname<T: Flt, SA: ndarray::Data<Elem = T> + Send + Sync + 'static>(
            x: Option<ndarray::ArrayBase<SA, ndarray::Ix1>>,
            y: Option<ndarray::ArrayBase<SA, ndarray::Ix1>>,
            data: ArrayD<T>,
            dd: DDim,
            extrapolate: bool,
        ) -> Option<Result<Box<$obj>, BuilderError>> {
            macro_rules! go {
                ($D:ty) => {{
                    let data = data.into_dimensionality::<$D>().ok()?;
                    let h = crate::common::splitmix(data.iter().next().map(|v| v.key()).unwrap_or(0) ^ (data.len() as u64) << 7);
                    let s = Bilinear::new().extrapolate(extrapolate);
                    // the way the builder is obtained and the order of its calls are varied
                    match (x.is_some() && y.is_some(), h % 4) {
                        (true, 0) => return Some(Interp2D::builder(data).y(y.unwrap()).x(x.unwrap()).strategy(s).build().map(|i| Box::new(i) as Box<$obj>)),
                        (true, 1) => return Some(Interp2DBuilder::new(data).x(x.unwrap()).strategy(s).y(y.unwrap()).build().map(|i| Box::new(i) as Box<$obj>)),
                        (true, 2) if !extrapolate => return Some(Interp2D::builder(data).x(x.unwrap()).y(y.unwrap()).build().map(|i| Box::new(i) as Box<$obj>)),
                        // axes / strategy that are set and then replaced do not matter
                        (true, 3) => {
                            return Some(
                                Interp2DBuilder::new(data)
                                    .y(Array1::from_vec(vec![T::of(1.0), T::nan()]))
                                    .x(Array1::from_vec(vec![T::of(5.0), T::of(4.0), T::of(4.0)]))
                                    .strategy(Bilinear::new().extrapolate(!extrapolate))
                                    .x(x.unwrap())
                                    .strategy(s)
                                    .y(y.unwrap())
                                    .build()
                                    .map(|i| Box::new(i) as Box<$obj>),
                            )
                        }
                        (false, 0) if x.is_none() && y.is_none() && !extrapolate => return Some(Interp2D::builder(data).build().map(|i| Box::new(i) as Box<$obj>)),
                        _ => {}
                    }
                    let b = Interp2DBuilder::new(data).strategy(s);
                    Some(match (x, y) {
                        (Some(x), Some(y)) => b.x(x).y(y).build().map(|i| Box::new(i) as Box<$obj>),
                        (Some(x), None) => b.x(x).build().map(|i| Box::new(i) as Box<$obj>),
                        (None, Some(y)) => b.y(y).build().map(|i| Box::new(i) as Box<$obj>),
                        (None, None) => b.build().map(|i| Box::new(i) as Box<$obj>),
                    })
                }};
            }
            match dd {
                DDim::S1 => None,
                DDim::S2 => go!(Ix2),
                DDim::S3 => go!(Ix3),
                DDim::S4 => go!(Ix4),
                DDim::S5 => go!(Ix5),
                DDim::S6 => go!(Ix6),
                DDim::Dyn => go!(IxDyn),
            }
        }
    };
}
def_build2!(build2, build2_any, dyn I2<T>);
def_build2!(build2_sync, build2_sync_any, dyn I2<T> + Send + Sync);

/// Some(aliasing pair) when x and y are equally long (n >= 2) and y[i] == x[2i] (bitwise) wherever 2i < n: then both
/// can be views of one allocation that start at the same element with the same length and different strides.
pub fn alias_axes<T: Flt>(x: &[T], y: &[T]) -> Option<(ndarray::ArcArray1<T>, ndarray::ArcArray1<T>)> {
    let n = x.len();
    if n < 2 || y.len() != n || !(0..n).all(|i| 2 * i >= n || y[i].key() == x[2 * i].key()) {
        return None;
    }
    let mut buf = vec![x[0]; 2 * n - 1];
    buf[..n].copy_from_slice(x);
    for i in 0..n {
        if 2 * i >= n {
            buf[2 * i] = y[i];
        }
    }
    Some(aliasing_pair(buf, n))
}

/// a y axis related to x as in `alias_axes`; behind the shared part it continues strictly increasing (`valid`) or not
pub fn related_axis<T: Flt>(src: &mut crate::common::Src, x: &[T], valid: bool) -> Vec<T> {
    let n = x.len();
    let mut y: Vec<T> = (0..n).map(|i| if 2 * i < n { x[2 * i] } else { x[0] }).collect();
    let first_free = n.div_ceil(2);
    for i in first_free..n {
        let prev = y[i - 1];
        y[i] = T::of(prev.f() + (1.0 + src.unit()) * (prev.f().abs().max(1.0)) * 0.25);
    }
    if !valid && first_free < n {
        let k = src.usize_in(first_free, n - 1);
        y[k] = match src.below(3) {
            0 => y[k - 1],
            1 => T::of(y[k - 1].f() - 1.0),
            _ => T::nan(),
        };
    }
    y
}

/// Two shared arrays over ONE allocation that start at the same element and have the same length `n` but different
/// strides: the first `n` elements and every second element of `buf` (`buf.len() >= 2n-1`).
pub fn aliasing_pair<T: Flt>(buf: Vec<T>, n: usize) -> (ndarray::ArcArray1<T>, ndarray::ArcArray1<T>) {
    assert!(buf.len() >= 2 * n.max(1) - 1);
    let a = ndarray::ArcArray1::from_vec(buf);
    let first = a.clone().slice_move(ndarray::s![..n]);
    let second = a.slice_move(ndarray::s![..2 * n.max(1) - 1;2]);
    (first, second)
}

/// Linear interpolator from `new_unchecked` (the caller guarantees valid inputs)
pub fn build1_unchecked<T: Flt>(x: Array1<T>, data: ArrayD<T>, dd: DDim, extrapolate: bool) -> Option<Box<dyn I1<T>>> {
    macro_rules! go {
        ($D:ty) => {{
            let data = data.into_dimensionality::<$D>().ok()?;
            Some(Box::new(Interp1D::new_unchecked(x, data, Linear::new().extrapolate(extrapolate))) as Box<dyn I1<T>>)
        }};
    }
    ddispatch!(dd, go)
}

/// Bilinear interpolator from `new_unchecked` (the caller guarantees valid inputs)
pub fn build2_unchecked<T: Flt>(x: Array1<T>, y: Array1<T>, data: ArrayD<T>, dd: DDim, extrapolate: bool) -> Option<Box<dyn I2<T>>> {
    macro_rules! go {
        ($D:ty) => {{
            let data = data.into_dimensionality::<$D>().ok()?;
            Some(Box::new(Interp2D::new_unchecked(x, y, data, Bilinear::new().extrapolate(extrapolate))) as Box<dyn I2<T>>)
        }};
    }
    match dd {
        DDim::S1 => None,
        DDim::S2 => go!(Ix2),
        DDim::S3 => go!(Ix3),
        DDim::S4 => go!(Ix4),
        DDim::S5 => go!(Ix5),
        DDim::S6 => go!(Ix6),
        DDim::Dyn => go!(IxDyn),
    }
}

/// which of the two orders of `CubicSpline::extrapolate` / `CubicSpline::boundary` a builder uses
pub fn builder_order(h: u64) -> bool {
    crate::common::splitmix(h) & 1 == 0
}

pub fn arr_d<T: Flt>(shape: &[usize], vals: &[f64]) -> ArrayD<T> {
    ArrayD::from_shape_vec(IxDyn(shape), vals.iter().map(|&v| T::of(v)).collect()).expect("shape/len mismatch")
}

pub fn arr_1<T: Flt>(vals: &[f64]) -> Array1<T> {
    Array1::from_iter(vals.iter().map(|&v| T::of(v)))
}

#[allow(unused)]
fn _unused(_: ArrayView1<f64>, _: Array<f64, Ix0>, _: Interp1D<ndarray::OwnedRepr<f64>, ndarray::OwnedRepr<f64>, Ix1, Linear>, _: Interp2D<ndarray::OwnedRepr<f64>, ndarray::OwnedRepr<f64>, ndarray::OwnedRepr<f64>, Ix2, Bilinear>) {
    let _ = std::any::type_name::<<Ix1 as DimAdd<Ix1>>::Output>();
}


// ---------------------------------------------------------------------------------------------
// Builders over arbitrary storage kinds / layouts (C13): the arrays are passed as they are
// (owned clones keep their strides) or as views; the interpolator only lives inside `f`.
// ---------------------------------------------------------------------------------------------

pub fn with_interp1<T: Flt, Rr>(
    x: Option<&Array1<T>>,
    x_view: bool,
    data: &ArrayD<T>,
    data_view: bool,
    dd: DDim,
    strat: &Strat1<T>,
    f: &mut dyn FnMut(&dyn I1<T>) -> Rr,
) -> Option<Result<Rr, BuilderError>> {
    macro_rules! finish {
        ($b:expr) => {{
            let b = $b;
            match (x, x_view) {
                (Some(x), true) => b.x(x.view()).build().map(|i| f(&i)),
                (Some(x), false) => b.x(x.clone()).build().map(|i| f(&i)),
                (None, _) => b.build().map(|i| f(&i)),
            }
        }};
    }
    macro_rules! go {
        ($D:ty) => {{
            match strat {
                Strat1::Linear { extrapolate } => {
                    let s = Linear::new().extrapolate(*extrapolate);
                    if data_view {
                        let d = data.view().into_dimensionality::<$D>().ok()?;
                        Some(finish!(Interp1DBuilder::new(d).strategy(s)))
                    } else {
                        let d = data.clone().into_dimensionality::<$D>().ok()?;
                        Some(finish!(Interp1DBuilder::new(d).strategy(s)))
                    }
                }
                Strat1::Spline { extrapolate, bc } => {
                    let s = CubicSpline::<T, $D>::new().extrapolate(*extrapolate).boundary(conv_bc::<T, $D>(bc)?);
                    if data_view {
                        let d = data.view().into_dimensionality::<$D>().ok()?;
                        Some(finish!(Interp1DBuilder::new(d).strategy(s)))
                    } else {
                        let d = data.clone().into_dimensionality::<$D>().ok()?;
                        Some(finish!(Interp1DBuilder::new(d).strategy(s)))
                    }
                }
            }
        }};
    }
    ddispatch!(dd, go)
}

/// like `with_interp1` with the axis given as an arbitrary (e.g. strided, aliasing) view and view data
pub fn with_interp1_xview<T: Flt, Rr>(x: ndarray::ArrayView1<'_, T>, data: &ArrayD<T>, dd: DDim, strat: &Strat1<T>, f: &mut dyn FnMut(&dyn I1<T>) -> Rr) -> Option<Result<Rr, BuilderError>> {
    macro_rules! go {
        ($D:ty) => {{
            let d = data.view().into_dimensionality::<$D>().ok()?;
            match strat {
                Strat1::Linear { extrapolate } => Some(Interp1DBuilder::new(d).strategy(Linear::new().extrapolate(*extrapolate)).x(x).build().map(|i| f(&i))),
                Strat1::Spline { extrapolate, bc } => {
                    let s = CubicSpline::<T, $D>::new().extrapolate(*extrapolate).boundary(conv_bc::<T, $D>(bc)?);
                    Some(Interp1DBuilder::new(d).strategy(s).x(x).build().map(|i| f(&i)))
                }
            }
        }};
    }
    ddispatch!(dd, go)
}

pub fn with_interp2<T: Flt, Rr>(
    x: Option<&Array1<T>>,
    y: Option<&Array1<T>>,
    axes_view: bool,
    data: &ArrayD<T>,
    data_view: bool,
    dd: DDim,
    extrapolate: bool,
    f: &mut dyn FnMut(&dyn I2<T>) -> Rr,
) -> Option<Result<Rr, BuilderError>> {
    macro_rules! finish {
        ($b:expr) => {{
            let b = $b;
            match (x, y, axes_view) {
                (Some(x), Some(y), true) => b.x(x.view()).y(y.view()).build().map(|i| f(&i)),
                (Some(x), Some(y), false) => b.x(x.clone()).y(y.clone()).build().map(|i| f(&i)),
                (Some(x), None, true) => b.x(x.view()).build().map(|i| f(&i)),
                (Some(x), None, false) => b.x(x.clone()).build().map(|i| f(&i)),
                (None, Some(y), true) => b.y(y.view()).build().map(|i| f(&i)),
                (None, Some(y), false) => b.y(y.clone()).build().map(|i| f(&i)),
                (None, None, _) => b.build().map(|i| f(&i)),
            }
        }};
    }
    macro_rules! go {
        ($D:ty) => {{
            let s = Bilinear::new().extrapolate(extrapolate);
            if data_view {
                let d = data.view().into_dimensionality::<$D>().ok()?;
                Some(finish!(Interp2DBuilder::new(d).strategy(s)))
            } else {
                let d = data.clone().into_dimensionality::<$D>().ok()?;
                Some(finish!(Interp2DBuilder::new(d).strategy(s)))
            }
        }};
    }
    match dd {
        DDim::S1 => None,
        DDim::S2 => go!(Ix2),
        DDim::S3 => go!(Ix3),
        DDim::S4 => go!(Ix4),
        DDim::S5 => go!(Ix5),
        DDim::S6 => go!(Ix6),
        DDim::Dyn => go!(IxDyn),
    }
}
