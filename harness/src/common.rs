//! Shared machinery: entropy decoder, observation records, the proptest driver, evidence and
//! replay files, known-findings handling.

use proptest::test_runner::{Config, RngAlgorithm, RngSeed, TestCaseError, TestError, TestRunner};
use serde_json::{json, Value};
use std::cell::RefCell;
use std::collections::{BTreeMap, HashSet};
use std::hash::{Hash, Hasher};
use std::panic::{catch_unwind, AssertUnwindSafe};
use std::time::Instant;

pub const VERIF_DIR: &str = "/verif";

/// where evidence and replay files are written: /verif, or $VERIF_OUT for scratch (mutant) runs
pub fn out_dir() -> String {
    std::env::var("VERIF_OUT").unwrap_or_else(|_| VERIF_DIR.to_string())
}
pub const DEFAULT_SEED: u64 = 20261004;
/// seed of the current run (enumerated parts derive their per-index entropy from it)
pub static SEED: std::sync::atomic::AtomicU64 = std::sync::atomic::AtomicU64::new(DEFAULT_SEED);

pub fn run_seed() -> u64 {
    SEED.load(std::sync::atomic::Ordering::Relaxed)
}

/// deterministic entropy for index `i` of an enumerated part
pub fn derived_entropy(tag: u64, i: u64, len: usize) -> Vec<u64> {
    let mut h = splitmix(run_seed() ^ tag.wrapping_mul(0xA24BAED4963EE407));
    h = splitmix(h ^ i.wrapping_mul(0x9FB21C651E98DF25));
    (0..len)
        .map(|_| {
            h = splitmix(h);
            h
        })
        .collect()
}

#[derive(Clone, Copy, Debug, PartialEq, Eq)]
pub enum Tier {
    Quick,
    Thorough,
}

impl Tier {
    pub fn name(self) -> &'static str {
        match self {
            Tier::Quick => "quick",
            Tier::Thorough => "thorough",
        }
    }
    pub fn pick(self, q: u64, t: u64) -> u64 {
        match self {
            Tier::Quick => q,
            Tier::Thorough => t,
        }
    }
}

// ---------------------------------------------------------------------------------------------
// Entropy source: every generated case is a pure function of a vector of u64 drawn by
// proptest. All maps are monotone (0 = simplest choice) so that proptest's element-wise
// shrinking of the vector makes progress.
// ---------------------------------------------------------------------------------------------

pub struct Src<'a> {
    data: &'a [u64],
    pub pos: usize,
}

impl<'a> Src<'a> {
    pub fn new(data: &'a [u64]) -> Self {
        Src { data, pos: 0 }
    }
    pub fn next(&mut self) -> u64 {
        let v = self.data.get(self.pos).copied().unwrap_or(0);
        self.pos += 1;
        v
    }
    /// uniform in 0..n (n >= 1), monotone in the raw value
    pub fn below(&mut self, n: u64) -> u64 {
        debug_assert!(n >= 1);
        ((self.next() as u128 * n as u128) >> 64) as u64
    }
    pub fn usize_in(&mut self, lo: usize, hi: usize) -> usize {
        lo + self.below((hi - lo + 1) as u64) as usize
    }
    pub fn int_in(&mut self, lo: i64, hi: i64) -> i64 {
        lo + self.below((hi - lo + 1) as u64) as i64
    }
    pub fn bool(&mut self) -> bool {
        self.next() >> 63 != 0
    }
    /// true with probability num/den; raw 0 gives false
    pub fn chance(&mut self, num: u64, den: u64) -> bool {
        self.below(den) >= den - num
    }
    pub fn pick<T: Clone>(&mut self, items: &[T]) -> T {
        items[self.below(items.len() as u64) as usize].clone()
    }
    /// index chosen with the given weights; index 0 is the simplest
    pub fn weighted(&mut self, w: &[u32]) -> usize {
        let total: u64 = w.iter().map(|&x| x as u64).sum();
        let mut r = self.below(total);
        for (i, &x) in w.iter().enumerate() {
            if r < x as u64 {
                return i;
            }
            r -= x as u64;
        }
        w.len() - 1
    }
    /// uniform in [0,1)
    pub fn unit(&mut self) -> f64 {
        (self.next() >> 11) as f64 / (1u64 << 53) as f64
    }
    pub fn consumed(&self) -> &[u64] {
        &self.data[..self.pos.min(self.data.len())]
    }
}

// ---------------------------------------------------------------------------------------------

#[derive(Debug, Clone)]
pub struct Fail {
    /// coarse structural signature, the key of KNOWN_FINDINGS.txt
    pub sig: String,
    pub msg: String,
}

impl Fail {
    pub fn new(sig: impl Into<String>, msg: impl Into<String>) -> Self {
        Fail { sig: sig.into(), msg: msg.into() }
    }
}

#[macro_export]
macro_rules! fail {
    ($sig:expr, $($arg:tt)*) => {
        return Err($crate::common::Fail::new($sig, format!($($arg)*)))
    };
}

/// What one case contributes to the evidence.
#[derive(Default)]
pub struct Obs {
    pub asserts: u64,
    pub classes: Vec<String>,
    pub nontrivial: bool,
    pub hasher: Option<std::collections::hash_map::DefaultHasher>,
    pub max_err: f64,
    pub want_desc: bool,
    pub desc: Option<Value>,
    /// numeric side information (e.g. bit-equal counts), summed over cases
    pub counters: Vec<(&'static str, u64)>,
    /// labelled maxima of the normalised error
    pub errs: Vec<(String, f64)>,
}

impl Obs {
    /// record a normalised error under a label (and in the overall maximum)
    pub fn err_l(&mut self, label: &str, normalised: f64) {
        self.err(normalised);
        if let Some(e) = self.errs.iter_mut().find(|(l, _)| l == label) {
            if normalised > e.1 {
                e.1 = normalised;
            }
        } else {
            self.errs.push((label.to_string(), normalised));
        }
    }
    pub fn class(&mut self, c: impl Into<String>) {
        self.classes.push(c.into());
    }
    pub fn count(&mut self, name: &'static str, n: u64) {
        self.counters.push((name, n));
    }
    pub fn err(&mut self, normalised: f64) {
        if normalised > self.max_err {
            self.max_err = normalised;
        }
    }
    /// feed the canonical content of the case into the distinctness hash
    pub fn key<T: Hash>(&mut self, v: &T) {
        let h = self.hasher.get_or_insert_with(std::collections::hash_map::DefaultHasher::new);
        v.hash(h);
    }
    pub fn key_f64s(&mut self, v: &[f64]) {
        let h = self.hasher.get_or_insert_with(std::collections::hash_map::DefaultHasher::new);
        for x in v {
            x.to_bits().hash(h);
        }
    }
    pub fn key_value(&self) -> u64 {
        self.hasher.as_ref().map(|h| h.finish()).unwrap_or(0)
    }
    pub fn describe(&mut self, f: impl FnOnce() -> Value) {
        if self.want_desc {
            self.desc = Some(f());
        }
    }
}

#[derive(Default)]
pub struct Report {
    pub evaluations: u64,
    pub assertions: u64,
    pub nontrivial_total: u64,
    pub distinct: HashSet<u64>,
    pub classes: BTreeMap<String, u64>,
    pub counters: BTreeMap<String, u64>,
    pub samples: Vec<Value>,
    pub max_err: f64,
    pub max_err_by: BTreeMap<String, f64>,
    pub known_hits: BTreeMap<String, u64>,
    pub exhaustive: Option<bool>,
    pub notes: Vec<String>,
}

impl Report {
    pub fn absorb(&mut self, obs: Obs, max_samples: usize) {
        self.evaluations += 1;
        self.assertions += obs.asserts;
        if obs.nontrivial {
            self.nontrivial_total += 1;
            self.distinct.insert(obs.key_value());
        }
        for c in obs.classes {
            *self.classes.entry(c).or_insert(0) += 1;
        }
        for (k, n) in obs.counters {
            *self.counters.entry(k.to_string()).or_insert(0) += n;
        }
        if obs.max_err > self.max_err {
            self.max_err = obs.max_err;
        }
        for (l, v) in obs.errs {
            let e = self.max_err_by.entry(l).or_insert(0.0);
            if v > *e {
                *e = v;
            }
        }
        if let Some(d) = obs.desc {
            if self.samples.len() < max_samples {
                self.samples.push(d);
            }
        }
    }
    pub fn merge(&mut self, o: Report) {
        self.evaluations += o.evaluations;
        self.assertions += o.assertions;
        self.nontrivial_total += o.nontrivial_total;
        self.distinct.extend(o.distinct);
        for (k, v) in o.classes {
            *self.classes.entry(k).or_insert(0) += v;
        }
        for (k, v) in o.counters {
            *self.counters.entry(k).or_insert(0) += v;
        }
        for (k, v) in o.known_hits {
            *self.known_hits.entry(k).or_insert(0) += v;
        }
        for s in o.samples {
            if self.samples.len() < 8 {
                self.samples.push(s);
            }
        }
        if o.max_err > self.max_err {
            self.max_err = o.max_err;
        }
        for (l, v) in o.max_err_by {
            let e = self.max_err_by.entry(l).or_insert(0.0);
            if v > *e {
                *e = v;
            }
        }
        self.notes.extend(o.notes);
    }
}

/// A property check. `run_case` decodes one case from the entropy and checks it.
pub trait Check: Sync + Send {
    fn id(&self) -> &'static str;
    /// number of u64 of entropy per random case
    fn entropy_len(&self) -> usize;
    /// number of random cases for the tier
    fn cases(&self, tier: Tier) -> u64;
    fn run_case(&self, src: &mut Src, obs: &mut Obs) -> Result<(), Fail>;
    /// enumerated (non-random) part: number of indices and the check of one index
    fn enum_count(&self, _tier: Tier) -> u64 {
        0
    }
    fn run_enum(&self, _index: u64, _tier: Tier, _obs: &mut Obs) -> Result<(), Fail> {
        Ok(())
    }
    /// is the enumerated part a complete enumeration of a finite space named in the property?
    fn enum_exhaustive(&self, _tier: Tier) -> bool {
        false
    }
    fn rule(&self) -> String;
    fn assumptions(&self) -> Vec<String>;
    /// classes that must be non-empty in a run of the given tier (generator health)
    fn required_classes(&self, _tier: Tier) -> Vec<&'static str> {
        Vec::new()
    }
    /// plain, generator-independent regression cases (confirmed historic failures with concrete
    /// inputs written out in code); replayed first by every run
    fn regressions(&self) -> Vec<(&'static str, fn() -> Result<(), Fail>)> {
        Vec::new()
    }
    /// extra keys for the coverage object (constants used, ...)
    fn extra_coverage(&self) -> Value {
        json!({})
    }
}

thread_local! {
    static LAST_PANIC: RefCell<Option<String>> = const { RefCell::new(None) };
}

pub fn install_quiet_panic_hook() {
    std::panic::set_hook(Box::new(|info| {
        let msg = if let Some(s) = info.payload().downcast_ref::<&str>() {
            s.to_string()
        } else if let Some(s) = info.payload().downcast_ref::<String>() {
            s.clone()
        } else {
            "<non-string panic>".to_string()
        };
        let loc = info.location().map(|l| format!("{}:{}", l.file(), l.line())).unwrap_or_default();
        LAST_PANIC.with(|p| *p.borrow_mut() = Some(format!("{msg} @ {loc}")));
    }));
}

pub fn take_last_panic() -> String {
    LAST_PANIC.with(|p| p.borrow_mut().take()).unwrap_or_else(|| "<unknown panic>".into())
}

/// Run `f`, converting a panic into Err(message).
pub fn catch<R>(f: impl FnOnce() -> R) -> Result<R, String> {
    match catch_unwind(AssertUnwindSafe(f)) {
        Ok(r) => Ok(r),
        Err(_) => Err(take_last_panic()),
    }
}

pub fn guarded_case(check: &dyn Check, data: &[u64], obs: &mut Obs) -> Result<(), Fail> {
    let mut src = Src::new(data);
    match catch(|| check.run_case(&mut src, obs)) {
        Ok(r) => r,
        Err(p) => Err(Fail::new("panic-in-check", format!("unexpected panic: {p}"))),
    }
}

fn guarded_enum(check: &dyn Check, idx: u64, tier: Tier, obs: &mut Obs) -> Result<(), Fail> {
    match catch(|| check.run_enum(idx, tier, obs)) {
        Ok(r) => r,
        Err(p) => Err(Fail::new("panic-in-check", format!("unexpected panic: {p}"))),
    }
}

/// Deterministic shrinker over the entropy vector (all decoders map 0 to the simplest
/// choice): zero blocks of decreasing size, then lower single values by bisection. A candidate
/// is kept only if the check still fails with the same signature and that signature is not a
/// known finding. Bounded by evaluation count, not time.
pub fn shrink(check: &dyn Check, mut data: Vec<u64>, mut fail: Fail, known: &Known) -> (Vec<u64>, Fail) {
    let id = check.id();
    let sig = fail.sig.clone();
    let mut budget = 1500u32;
    let mut try_cand = |cand: &[u64], budget: &mut u32| -> Option<Fail> {
        if *budget == 0 {
            return None;
        }
        *budget -= 1;
        let mut obs = Obs::default();
        match guarded_case(check, cand, &mut obs) {
            Err(f) if f.sig == sig && known.matches(id, &f.sig).is_none() => Some(f),
            _ => None,
        }
    };
    // trailing entropy that is never read does not matter: cut it conceptually by zeroing
    let mut block = data.len().next_power_of_two() / 2;
    while block >= 1 && budget > 0 {
        let mut start = 0;
        while start < data.len() && budget > 0 {
            let end = (start + block).min(data.len());
            if data[start..end].iter().any(|&v| v != 0) {
                let mut cand = data.clone();
                for v in &mut cand[start..end] {
                    *v = 0;
                }
                if let Some(f) = try_cand(&cand, &mut budget) {
                    data = cand;
                    fail = f;
                }
            }
            start += block;
        }
        block /= 2;
    }
    // lower individual values
    for i in 0..data.len() {
        if budget == 0 {
            break;
        }
        if data[i] == 0 {
            continue;
        }
        let mut lo = 0u64; // known not to fail (0 was tried in the block pass)
        let mut hi = data[i];
        for _ in 0..6 {
            if budget == 0 || hi - lo <= 1 {
                break;
            }
            let mid = lo + (hi - lo) / 2;
            let mut cand = data.clone();
            cand[i] = mid;
            if let Some(f) = try_cand(&cand, &mut budget) {
                data = cand;
                fail = f;
                hi = mid;
            } else {
                lo = mid;
            }
        }
    }
    (data, fail)
}

/// little-endian bytes -> entropy words, padded with zeros to the requested length
pub fn words(data: &[u8], len: usize) -> Vec<u64> {
    let mut w: Vec<u64> = data
        .chunks(8)
        .take(len)
        .map(|c| {
            let mut b = [0u8; 8];
            b[..c.len()].copy_from_slice(c);
            u64::from_le_bytes(b)
        })
        .collect();
    w.resize(len, 0);
    w
}

pub fn splitmix(mut z: u64) -> u64 {
    z = z.wrapping_add(0x9E3779B97F4A7C15);
    z = (z ^ (z >> 30)).wrapping_mul(0xBF58476D1CE4E5B9);
    z = (z ^ (z >> 27)).wrapping_mul(0x94D049BB133111EB);
    z ^ (z >> 31)
}

fn seed_bytes(seed: u64, id: &str, worker: u64) -> Vec<u8> {
    let mut h = splitmix(seed);
    for b in id.bytes() {
        h = splitmix(h ^ b as u64);
    }
    h = splitmix(h ^ worker.wrapping_mul(0xD6E8FEB86659FD93));
    let mut out = Vec::with_capacity(32);
    for _ in 0..4 {
        h = splitmix(h);
        out.extend_from_slice(&h.to_le_bytes());
    }
    out
}

pub struct Known {
    pub sigs: Vec<(String, String, String)>, // (property, sig, text)
}

impl Known {
    pub fn load() -> Known {
        let mut sigs = Vec::new();
        if let Ok(s) = std::fs::read_to_string(format!("{VERIF_DIR}/KNOWN_FINDINGS.txt")) {
            for line in s.lines() {
                let line = line.trim();
                if let Some(rest) = line.strip_prefix("known:") {
                    let mut prop = String::new();
                    let mut sig = String::new();
                    for tok in rest.split_whitespace() {
                        if let Some(p) = tok.strip_prefix("property=") {
                            prop = p.to_string();
                        } else if let Some(p) = tok.strip_prefix("sig=") {
                            sig = p.to_string();
                        }
                    }
                    if !prop.is_empty() && !sig.is_empty() {
                        sigs.push((prop, sig, rest.trim().to_string()));
                    }
                }
            }
        }
        Known { sigs }
    }
    pub fn matches(&self, prop: &str, sig: &str) -> Option<&str> {
        self.sigs.iter().find(|(p, s, _)| p == prop && s == sig).map(|(_, _, t)| t.as_str())
    }
}

pub struct Violation {
    pub fail: Fail,
    pub replay: Value,
}

pub struct RunOutcome {
    pub report: Report,
    pub violation: Option<Violation>,
    pub wall_s: f64,
}

/// Drive a check: regressions first, then the enumerated part, then the random part on
/// `threads` proptest runners with derived seeds.
pub fn drive(check: &dyn Check, tier: Tier, seed: u64, threads: usize, known: &Known) -> RunOutcome {
    let start = Instant::now();
    let id = check.id();
    let mut report = Report::default();

    // 1. enumerated part, split over threads by index stride
    let n_enum = check.enum_count(tier);
    let mut violation: Option<Violation> = None;
    if n_enum > 0 {
        let results: Vec<(Report, Option<(u64, Fail)>)> = std::thread::scope(|s| {
            let hs: Vec<_> = (0..threads as u64)
                .map(|w| {
                    s.spawn(move || {
                        let mut rep = Report::default();
                        let mut bad = None;
                        let mut i = w;
                        while i < n_enum {
                            // samples spread over the index space (worker 0 only, up to 6)
                            let stride = n_enum / threads as u64 / 6 + 1;
                            let want = w == 0 && rep.samples.len() < 6 && (i / threads as u64) % stride == 0;
                            let mut obs = Obs { want_desc: want, ..Obs::default() };
                            match guarded_enum(check, i, tier, &mut obs) {
                                Ok(()) => rep.absorb(obs, 6),
                                Err(f) => {
                                    if known.matches(id, &f.sig).is_some() {
                                        *rep.known_hits.entry(f.sig.clone()).or_insert(0) += 1;
                                    } else {
                                        bad = Some((i, f));
                                        break;
                                    }
                                }
                            }
                            i += threads as u64;
                        }
                        (rep, bad)
                    })
                })
                .collect();
            hs.into_iter().map(|h| h.join().expect("enum worker panicked")).collect()
        });
        let mut first_bad: Option<(u64, Fail)> = None;
        for (rep, bad) in results {
            report.merge(rep);
            if let Some((i, f)) = bad {
                if first_bad.as_ref().map(|(j, _)| i < *j).unwrap_or(true) {
                    first_bad = Some((i, f));
                }
            }
        }
        if let Some((i, f)) = first_bad {
            let mut obs = Obs { want_desc: true, ..Obs::default() };
            let _ = guarded_enum(check, i, tier, &mut obs);
            violation = Some(Violation {
                replay: json!({"property": id, "kind": "enum", "index": i, "tier": tier.name(), "seed": seed,
                    "signature": f.sig, "message": f.msg, "case": obs.desc}),
                fail: f,
            });
        } else {
            report.exhaustive = Some(check.enum_exhaustive(tier));
        }
    }

    // 2. random part
    let total = check.cases(tier);
    if violation.is_none() && total > 0 {
        let per = total.div_ceil(threads as u64);
        let elen = check.entropy_len();
        let stop = std::sync::atomic::AtomicBool::new(false);
        let stop = &stop;
        let results: Vec<(Report, Option<(Vec<u64>, Fail)>)> = std::thread::scope(|s| {
            let hs: Vec<_> = (0..threads as u64)
                .map(|w| {
                    s.spawn(move || {
                        let cfg = Config {
                            cases: per as u32,
                            failure_persistence: None,
                            rng_algorithm: RngAlgorithm::ChaCha,
                            rng_seed: RngSeed::Fixed(0),
                            max_shrink_iters: 0,
                            max_shrink_time: 0,
                            ..Config::default()
                        };
                        let rng = proptest::test_runner::TestRng::from_seed(
                            RngAlgorithm::ChaCha,
                            &seed_bytes(seed, id, w),
                        );
                        let mut runner = TestRunner::new_with_rng(cfg, rng);
                        let strat = proptest::collection::vec(proptest::num::u64::ANY, elen..=elen);
                        let rep = RefCell::new(Report::default());
                        let failed = std::cell::Cell::new(false);
                        let last_fail: RefCell<Option<Fail>> = RefCell::new(None);
                        let res = runner.run(&strat, |data| {
                            if !failed.get() && stop.load(std::sync::atomic::Ordering::Relaxed) {
                                // another worker found a violation: stop exploring
                                return Ok(());
                            }
                            let want = !failed.get() && w == 0 && rep.borrow().samples.len() < 8;
                            let mut obs = Obs { want_desc: want, ..Obs::default() };
                            match guarded_case(check, &data, &mut obs) {
                                Ok(()) => {
                                    if !failed.get() {
                                        // keep only non-trivial samples
                                        if !obs.nontrivial {
                                            obs.desc = None;
                                        }
                                        rep.borrow_mut().absorb(obs, 8);
                                    }
                                    Ok(())
                                }
                                Err(f) => {
                                    if known.matches(id, &f.sig).is_some() {
                                        if !failed.get() {
                                            *rep.borrow_mut().known_hits.entry(f.sig.clone()).or_insert(0) += 1;
                                        }
                                        return Ok(());
                                    }
                                    failed.set(true);
                                    stop.store(true, std::sync::atomic::Ordering::Relaxed);
                                    let m = f.msg.clone();
                                    *last_fail.borrow_mut() = Some(f);
                                    Err(TestCaseError::fail(m))
                                }
                            }
                        });
                        let bad = match res {
                            Ok(()) => None,
                            Err(TestError::Fail(_, data)) => {
                                let f0 = last_fail
                                    .borrow_mut()
                                    .take()
                                    .unwrap_or_else(|| Fail::new("unknown", "failure record lost"));
                                Some(shrink(check, data, f0, known))
                            }
                            Err(TestError::Abort(r)) => {
                                Some((Vec::new(), Fail::new("proptest-abort", format!("{r}"))))
                            }
                        };
                        (rep.into_inner(), bad)
                    })
                })
                .collect();
            hs.into_iter().map(|h| h.join().expect("worker panicked")).collect()
        });
        for (rep, bad) in results {
            report.merge(rep);
            if violation.is_none() {
                if let Some((data, f)) = bad {
                    let mut obs = Obs { want_desc: true, ..Obs::default() };
                    let _ = guarded_case(check, &data, &mut obs);
                    violation = Some(Violation {
                        replay: json!({"property": id, "kind": "entropy", "entropy": data, "tier": tier.name(), "seed": seed,
                            "signature": f.sig, "message": f.msg, "case": obs.desc}),
                        fail: f,
                    });
                }
            }
        }
    }
    RunOutcome { report, violation, wall_s: start.elapsed().as_secs_f64() }
}

/// Replay one saved case through the same check function, bypassing proptest.
pub fn replay(check: &dyn Check, file: &Value) -> Result<(), Fail> {
    let tier = if file["tier"] == "thorough" { Tier::Thorough } else { Tier::Quick };
    if let Some(s) = file["seed"].as_u64() {
        SEED.store(s, std::sync::atomic::Ordering::Relaxed);
    }
    let mut obs = Obs { want_desc: true, ..Obs::default() };
    let r = replay_inner(check, file, tier, &mut obs);
    if let Some(d) = &obs.desc {
        println!("decoded case: {}", serde_json::to_string(d).unwrap_or_default());
    }
    r
}

fn replay_inner(check: &dyn Check, file: &Value, tier: Tier, obs: &mut Obs) -> Result<(), Fail> {
    match file["kind"].as_str() {
        Some("enum") => {
            let i = file["index"].as_u64().ok_or_else(|| Fail::new("bad-replay", "no index"))?;
            guarded_enum(check, i, tier, obs)
        }
        _ => {
            let data: Vec<u64> = file["entropy"]
                .as_array()
                .ok_or_else(|| Fail::new("bad-replay", "no entropy"))?
                .iter()
                .map(|v| v.as_u64().unwrap_or(0))
                .collect();
            guarded_case(check, &data, obs)
        }
    }
}

pub fn write_replay(id: &str, v: &Value) -> String {
    let dir = format!("{}/replays", out_dir());
    let _ = std::fs::create_dir_all(&dir);
    let text = serde_json::to_string_pretty(v).unwrap();
    let mut h = std::collections::hash_map::DefaultHasher::new();
    text.hash(&mut h);
    let path = format!("{dir}/{id}-{:012x}.json", h.finish() & 0xffff_ffff_ffff);
    std::fs::write(&path, text).expect("cannot write replay file");
    path
}

pub fn write_evidence(check: &dyn Check, tier: Tier, seed: u64, out: &RunOutcome, regress_replayed: u64) {
    let r = &out.report;
    let mut cov = json!({
        "evaluations": r.evaluations,
        "distinct_nontrivial": r.distinct.len(),
        "nontrivial_total": r.nontrivial_total,
        "assertions": r.assertions,
        "rule": format!("{}{}", check.rule(), added_classes(check.id())),
        "samples": r.samples,
        "classes": r.classes,
        "counters": r.counters,
        "max_normalised_error": r.max_err,
        "max_normalised_error_by_class": r.max_err_by,
        "regressions_replayed": regress_replayed,
        "known_finding_hits": r.known_hits,
        "random_cases_requested": check.cases(tier),
        "enumerated_cases": check.enum_count(tier),
    });
    if let Some(e) = r.exhaustive {
        cov["exhaustive"] = json!(e);
        cov["exhaustive_scope"] = json!("the enumerated part only (see rule)");
    }
    if let Value::Object(m) = check.extra_coverage() {
        for (k, v) in m {
            cov[k] = v;
        }
    }
    if !r.notes.is_empty() {
        cov["notes"] = json!(r.notes);
    }
    let ev = json!({
        "property_id": check.id(),
        "tier": tier.name(),
        "seed": seed,
        "level": "exploration",
        "coverage": cov,
        "assumptions": check.assumptions(),
        "wall_s": out.wall_s,
        "violations": if out.violation.is_some() { 1 } else { 0 },
    });
    let dir = format!("{}/evidence", out_dir());
    let _ = std::fs::create_dir_all(&dir);
    std::fs::write(format!("{dir}/{}.json", check.id()), serde_json::to_string_pretty(&ev).unwrap())
        .expect("cannot write evidence");
}


/// generator classes added while building (DESIGN 3.3 / 9.45), appended to the rule text of the evidence
pub fn added_classes(id: &str) -> &'static str {
    match id {
        "C01" => " Added classes: axis / data / query layouts, new_unchecked construction, up to 96 lanes, axes up to 10^4 knots from expanded entropy, batches that look like the axis (n points, most of them knots), sorted batches, signed zeros at knots, axis and data scaled together by 2^+-300..900 (f32 2^+-30..100).",
        "C02" | "C03" | "C16" => " Added classes: anchored / jittered / symmetric / displaced-index axes, constant and duplicated lanes, Individual rows that are all equal / equal in pairs / constant along one trailing axis, 32..96 lanes on short axes, boundary arrays in non-standard layouts, equal-lane data as a broadcast (stride 0) view, setter call orders and overridden decoy calls.",
        "C04" => " Added classes: transpose and grid-line companions, related axes (identical, other pitch, two views of one allocation), diagonal queries, checkerboard / Toeplitz tables, grids up to 48 x 48, 32..96 lanes on small grids, new_unchecked and Interp2D::builder construction.",
        "C05" => " Added classes: batches that start with the complete axis, sorted batches, rank-1 batches of 4097..9000 points, zero-length trailing axes with offending elements.",
        "C06" => " Added classes: +-0.0 outside the range, distances up to 2^150 spans (f32 2^30; comparisons whose largest term is at the edge of the float range are skipped and counted), overridden decoy setter calls, signed zeros at knots.",
        "C07" => " Added classes: period counts up to 2^42 (f32 2^13), axes rescaled to the edges of the exponent window, displaced-index axes.",
        "C08" => " Added classes: equal-lane data as a broadcast view with differing boundary rows, rows constant along one trailing axis, 32..96 lanes.",
        "C09" => " Added classes: query layouts, axis-prefix and axis-like batches, sorted and very long batches, 32..70 lanes, a rank-1 query that is a view into the allocation behind the axis, xs / ys that are two views of one allocation (same start and shape, other strides).",
        "C10" => " Added classes: data layouts, x and y as two shared arrays over one allocation (y valid or not), axes that look like the index axis at both ends with an interior tie / swap / NaN, boundary arrays with the right row count spread wrongly over the trailing axes, long axes (to 20 000 knots) with one irregularity at a random position, near the end or on a block seam.",
        "C11" => " Added classes (random part): index-like axes (anchored, displaced-index, unit, symmetric, dyadic, jittered), the axis as a reversed-stride or every-2nd-element view.",
        "C12" => " Added classes (long vectors): irregularities on block seams, NaN at the first / last element, reversed and strided views, lengths 9..200, plateau vectors and staircases, i64 offsets 2^53..2^61 and i32 near 2^30.",
        "C13" => " Added classes: 32..96 lanes with data rows and buffer rows in one contiguous non-C layout, queries aliasing the axis allocation, transposed query views of one matrix, x / y axes aliasing each other (plus diagonal points), equal-lane data as a broadcast view.",
        "C14" => " Added classes: rank-1 batches up to 9000 points whose length sits on or next to a multiple of 2^6..2^12, with the right buffer or one row too few / too many.",
        "C15" => " Added classes: grid shifts of up to 2^44 grid steps (f32 2^12).",
        "C17" => " Added classes: an operation repeated immediately (also a failing one) or asked again through the other single-point entry; long axes 65..400; i64 Linear interpolators with axes beyond 2^53 (histories of scalar and batch queries against fresh interpolators).",
        "C18" => " Added classes: query layouts, zero-length trailing axes, repeated adjacent points, 32..70 lanes, x / y as two views of one allocation with y valid or not, invalid axes that look like the index axis at both ends.",
        "C19" => " Added classes: the query equal to the interpolator's own axis, xs / ys in different storage kinds (owned / view / shared), buffers whose leading length is off by one (fast path vs per-element path), a knot at zero with -0.0 data asked with alternating signed zeros.",
        "C20" => " Added classes: element k of a batch (axis-like or random, Ix1 / IxDyn) against a twin in which every row that does not bracket q[k] is poisoned.",
        _ => "",
    }
}
