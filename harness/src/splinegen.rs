//! Generator for cubic-spline data sets (shared by C02, C03, C06, C07, C08, C15, C16).

use crate::adapt::{arr_1, arr_d, build1, Bc, DDim, Strat1, I1};
use crate::common::{Fail, Src};
use crate::exact::Rat;
use crate::gen::*;
use crate::oracle::{Bounds, End};
use ndarray::{ArrayD, IxDyn};
use ndarray_interp::interp1d::cubic_spline::{RowBoundary, SingleBoundary};
use serde_json::{json, Value};

#[derive(Clone, Debug, PartialEq)]
pub enum EndSel {
    NotAKnot,
    Natural,
    Clamped,
    First(f64),
    Second(f64),
}

impl EndSel {
    pub fn name(&self) -> &'static str {
        match self {
            EndSel::NotAKnot => "NotAKnot",
            EndSel::Natural => "Natural",
            EndSel::Clamped => "Clamped",
            EndSel::First(_) => "FirstDeriv",
            EndSel::Second(_) => "SecondDeriv",
        }
    }
    pub fn oracle(&self) -> End {
        match self {
            EndSel::NotAKnot => End::NotAKnot,
            EndSel::Natural => End::Second(Rat::zero()),
            EndSel::Clamped => End::First(Rat::zero()),
            EndSel::First(v) => End::First(Rat::from_f64(*v)),
            EndSel::Second(v) => End::Second(Rat::from_f64(*v)),
        }
    }
    pub fn single<T: Flt>(&self) -> SingleBoundary<T> {
        match self {
            EndSel::NotAKnot => SingleBoundary::NotAKnot,
            EndSel::Natural => SingleBoundary::Natural,
            EndSel::Clamped => SingleBoundary::Clamped,
            EndSel::First(v) => SingleBoundary::FirstDeriv(T::of(*v)),
            EndSel::Second(v) => SingleBoundary::SecondDeriv(T::of(*v)),
        }
    }
    pub fn value(&self) -> f64 {
        match self {
            EndSel::First(v) | EndSel::Second(v) => *v,
            _ => 0.0,
        }
    }
}

#[derive(Clone, Debug, PartialEq)]
pub enum LaneSel {
    NotAKnot,
    Natural,
    Clamped,
    Mixed(EndSel, EndSel),
}

impl LaneSel {
    pub fn ends(&self) -> (EndSel, EndSel) {
        match self {
            LaneSel::NotAKnot => (EndSel::NotAKnot, EndSel::NotAKnot),
            LaneSel::Natural => (EndSel::Natural, EndSel::Natural),
            LaneSel::Clamped => (EndSel::Clamped, EndSel::Clamped),
            LaneSel::Mixed(l, r) => (l.clone(), r.clone()),
        }
    }
    pub fn row<T: Flt>(&self) -> RowBoundary<T> {
        match self {
            LaneSel::NotAKnot => RowBoundary::NotAKnot,
            LaneSel::Natural => RowBoundary::Natural,
            LaneSel::Clamped => RowBoundary::Clamped,
            LaneSel::Mixed(l, r) => RowBoundary::Mixed { left: l.single::<T>(), right: r.single::<T>() },
        }
    }
    pub fn name(&self) -> String {
        let (l, r) = self.ends();
        format!("{}|{}", l.name(), r.name())
    }
}

#[derive(Clone, Debug, PartialEq)]
pub enum BcSel {
    NotAKnot,
    Natural,
    Clamped,
    Periodic,
    /// one selection per lane (row-major over the trailing axes)
    Individual(Vec<LaneSel>),
}

impl BcSel {
    pub fn name(&self) -> &'static str {
        match self {
            BcSel::NotAKnot => "NotAKnot",
            BcSel::Natural => "Natural",
            BcSel::Clamped => "Clamped",
            BcSel::Periodic => "Periodic",
            BcSel::Individual(_) => "Individual",
        }
    }
    pub fn is_periodic(&self) -> bool {
        matches!(self, BcSel::Periodic)
    }
    /// oracle bounds of lane l
    pub fn bounds(&self, l: usize) -> Bounds {
        match self {
            BcSel::Periodic => Bounds::Periodic,
            _ => {
                let (a, b) = self.lane(l).ends();
                Bounds::Ends(a.oracle(), b.oracle())
            }
        }
    }
    pub fn lane(&self, l: usize) -> LaneSel {
        match self {
            BcSel::NotAKnot => LaneSel::NotAKnot,
            BcSel::Natural => LaneSel::Natural,
            BcSel::Clamped => LaneSel::Clamped,
            BcSel::Periodic => panic!("periodic has no lane selection"),
            BcSel::Individual(v) => v[l].clone(),
        }
    }
    pub fn to_bc<T: Flt>(&self, trailing: &[usize]) -> Bc<T> {
        match self {
            BcSel::NotAKnot => Bc::NotAKnot,
            BcSel::Natural => Bc::Natural,
            BcSel::Clamped => Bc::Clamped,
            BcSel::Periodic => Bc::Periodic,
            BcSel::Individual(v) => {
                let mut shape = vec![1usize];
                shape.extend_from_slice(trailing);
                // the memory layout of the boundary array is varied too (a function of its content)
                let logical = ArrayD::from_shape_vec(IxDyn(&shape), v.iter().map(|l| l.row::<T>()).collect()).unwrap();
                let h = v.iter().fold(shape.len() as u64 ^ 0xB0, |h, l| crate::common::splitmix(h ^ (l.ends().0.value().to_bits() ^ l.ends().1.value().to_bits().rotate_left(7) ^ l.name().len() as u64)));
                Bc::Individual(crate::layout::realise(logical, crate::layout::lay_from_hash(h), RowBoundary::Natural))
            }
        }
    }
    pub fn describe(&self) -> Value {
        match self {
            BcSel::Individual(v) => json!({"Individual": v.iter().take(6).map(|l| format!("{l:?}")).collect::<Vec<_>>()}),
            o => json!(o.name()),
        }
    }
}

/// derivative value for an end condition: magnitude tied to data scale / h (or h^2)
pub fn deriv_value<T: Flt>(src: &mut Src, order: u32, scale_e: i32, h_typ: f64) -> f64 {
    let vc = if src.bool() { ValClass::Dyadic } else { ValClass::Full };
    let base = value::<T>(src, vc, scale_e);
    let he = h_typ.log2().round() as i32;
    let v = base * 2f64.powi(-he * order as i32) * 2f64.powi(src.int_in(-2, 2) as i32);
    let v = T::of(v).f();
    if v.is_finite() {
        v
    } else {
        0.0
    }
}

pub fn end_sel<T: Flt>(src: &mut Src, scale_e: i32, h_typ: f64) -> EndSel {
    match src.below(5) {
        0 => EndSel::NotAKnot,
        1 => EndSel::Natural,
        2 => EndSel::Clamped,
        3 => EndSel::First(deriv_value::<T>(src, 1, scale_e, h_typ)),
        _ => EndSel::Second(deriv_value::<T>(src, 2, scale_e, h_typ)),
    }
}

pub fn lane_sel<T: Flt>(src: &mut Src, scale_e: i32, h_typ: f64) -> LaneSel {
    match src.weighted(&[1, 1, 1, 6]) {
        0 => LaneSel::NotAKnot,
        1 => LaneSel::Natural,
        2 => LaneSel::Clamped,
        _ => LaneSel::Mixed(end_sel::<T>(src, scale_e, h_typ), end_sel::<T>(src, scale_e, h_typ)),
    }
}

#[derive(Clone, Debug)]
pub struct SplineCase {
    pub n: usize,
    pub axis_class: AxisClass,
    pub x: Vec<f64>,
    pub trailing: Vec<usize>,
    pub lanes: usize,
    /// row-major (n, lanes)
    pub data: Vec<f64>,
    pub bc: BcSel,
    pub scale_e: i32,
    pub dd: DDim,
    pub lay: crate::layout::Lay,
    pub xlay: crate::layout::Lay,
}

pub struct SplineOpts {
    pub max_n: usize,
    pub max_trailing_axes: usize,
    /// force Periodic / forbid Periodic / free
    pub periodic: Option<bool>,
    /// trailing lengths to choose from
    pub lens: &'static [usize],
    /// occasional size stress: many lanes (32..96) on a short axis
    pub stress: bool,
    /// occasional long axes up to this length (checks without an exact per-lane oracle)
    pub big_n: Option<usize>,
}

impl Default for SplineOpts {
    fn default() -> Self {
        SplineOpts { max_n: 40, max_trailing_axes: 3, periodic: None, lens: &[1, 2, 3], stress: true, big_n: None }
    }
}

/// make the per-lane selections constant along the last trailing axis (`last`) or along the first one
fn equal_along(v: &mut [LaneSel], trailing: &[usize], last: bool) {
    let lanes = v.len();
    if lanes == 0 || trailing.len() < 2 {
        return;
    }
    if last {
        let b = *trailing.last().unwrap();
        for l in 0..lanes {
            v[l] = v[(l / b.max(1)) * b.max(1)].clone();
        }
    } else {
        let inner = (lanes / trailing[0].max(1)).max(1);
        for l in 0..lanes {
            v[l] = v[l % inner].clone();
        }
    }
}

impl SplineCase {
    pub fn gen<T: Flt>(src: &mut Src, o: &SplineOpts) -> SplineCase {
        if o.stress && o.max_trailing_axes >= 1 && src.chance(1, 40) {
            return Self::gen_stress::<T>(src, o);
        }
        // n weighted to 3..12
        let n = match src.weighted(&[2, 2, 8, 2]) {
            0 => 3,
            1 => 4,
            2 => src.usize_in(5, 12.min(o.max_n)),
            _ => src.usize_in(5, o.max_n),
        };
        let axis_class = axis_class(src);
        let x = axis::<T>(src, n, axis_class, Some(6));
        let mut trailing = trailing_shape(src, o.max_trailing_axes, o.lens);
        while product(&trailing) > 6 {
            trailing.pop();
        }
        let lanes = product(&trailing);
        let scale_e = scale_exp::<T>(src);
        let vclass = val_class(src);
        let mut data = values::<T>(src, n * lanes, vclass, scale_e);
        // constant (flat) lanes: all values equal, zero in half of them
        for l in 0..lanes {
            if src.chance(1, 10) {
                let v = if src.bool() { 0.0 } else { value::<T>(src, vclass, scale_e) };
                for i in 0..n {
                    data[i * lanes + l] = v;
                }
            }
        }
        // duplicated lanes: every lane holds the data of lane 0 (equal blocks along every trailing axis)
        if lanes >= 2 && src.chance(1, 15) {
            for i in 0..n {
                for l in 1..lanes {
                    data[i * lanes + l] = data[i * lanes];
                }
            }
        }
        let h_typ = (x[n - 1] - x[0]) / (n - 1) as f64;
        let periodic = match o.periodic {
            Some(p) => p,
            None => src.chance(1, 8),
        };
        let bc = if periodic {
            BcSel::Periodic
        } else {
            match src.weighted(&[2, 1, 1, 8]) {
                0 => BcSel::NotAKnot,
                1 => BcSel::Natural,
                2 => BcSel::Clamped,
                _ => {
                    let mut v: Vec<LaneSel> = (0..lanes).map(|_| lane_sel::<T>(src, scale_e, h_typ)).collect();
                    // equalities between the lanes' selections: all lanes carry the very same row, or blocks of equal rows
                    if lanes >= 2 {
                        match src.below(8) {
                            0 => {
                                let f = v[0].clone();
                                v.iter_mut().for_each(|s| *s = f.clone());
                            }
                            1 => {
                                for l in 1..lanes {
                                    if l % 2 == 1 {
                                        v[l] = v[l - 1].clone();
                                    }
                                }
                            }
                            // selections that depend on one trailing axis only (constant along the last / along the first)
                            2 if trailing.len() >= 2 => equal_along(&mut v, &trailing, true),
                            3 if trailing.len() >= 2 => equal_along(&mut v, &trailing, false),
                            _ => {}
                        }
                    }
                    BcSel::Individual(v)
                }
            }
        };
        if periodic {
            for l in 0..lanes {
                data[(n - 1) * lanes + l] = data[l];
            }
        }
        let rank = 1 + trailing.len();
        let dd = if src.chance(1, 5) { DDim::Dyn } else { DDim::of_rank(rank) };
        let lay = crate::layout::pick_lay(src);
        let xlay = crate::layout::pick_lay(src);
        SplineCase { n, axis_class, x, trailing, lanes, data, bc, scale_e, dd, lay, xlay }
    }

    /// size stress: many lanes on a short axis, or (if allowed) a long axis; bulk numbers from expanded entropy
    fn gen_stress<T: Flt>(src: &mut Src, o: &SplineOpts) -> SplineCase {
        let long = o.big_n.is_some() && src.bool();
        let n = if long { src.usize_in(41, o.big_n.unwrap()) } else { src.usize_in(3, 7.min(o.max_n)) };
        let trailing = if long { trailing_shape(src, 1, &[1, 2]) } else { wide_trailing(src, o.max_trailing_axes) };
        let lanes = product(&trailing);
        let axis_class = axis_class(src);
        let scale_e = scale_exp::<T>(src);
        let vclass = val_class(src);
        let periodic = match o.periodic {
            Some(p) => p,
            None => src.chance(1, 8),
        };
        let kind = src.weighted(&[2, 1, 1, 4]);
        let dd = if src.chance(1, 5) { DDim::Dyn } else { DDim::of_rank(1 + trailing.len()) };
        let lay = crate::layout::pick_lay(src);
        let xlay = crate::layout::pick_lay(src);
        let ent = expand(src, 3 * n + 3 * n * lanes + 12 * lanes + 16);
        let mut s2 = Src::new(&ent);
        let x = axis::<T>(&mut s2, n, axis_class, Some(6));
        let mut data = values::<T>(&mut s2, n * lanes, vclass, scale_e);
        let h_typ = (x[n - 1] - x[0]) / (n - 1) as f64;
        let bc = if periodic {
            for l in 0..lanes {
                data[(n - 1) * lanes + l] = data[l];
            }
            BcSel::Periodic
        } else {
            match kind {
                0 => BcSel::NotAKnot,
                1 => BcSel::Natural,
                2 => BcSel::Clamped,
                _ => {
                    let mut v: Vec<LaneSel> = (0..lanes).map(|_| lane_sel::<T>(&mut s2, scale_e, h_typ)).collect();
                    match s2.below(4) {
                        0 => {
                            let f = v[0].clone();
                            v.iter_mut().for_each(|s| *s = f.clone());
                        }
                        1 | 2 if trailing.len() >= 2 => equal_along(&mut v, &trailing, s2.bool()),
                        _ => {}
                    }
                    BcSel::Individual(v)
                }
            }
        };
        SplineCase { n, axis_class, x, trailing, lanes, data, bc, scale_e, dd, lay, xlay }
    }

    pub fn shape(&self) -> Vec<usize> {
        let mut s = vec![self.n];
        s.extend_from_slice(&self.trailing);
        s
    }

    pub fn lane_data(&self, l: usize) -> Vec<f64> {
        (0..self.n).map(|i| self.data[i * self.lanes + l]).collect()
    }

    pub fn build<T: Flt>(&self, extrapolate: bool) -> Result<Box<dyn I1<T>>, Fail> {
        let xo = if self.axis_class == AxisClass::Index { None } else { Some(crate::layout::realise1(arr_1::<T>(&self.x), self.xlay, T::of(-9.0e9))) };
        let strat = Strat1::Spline { extrapolate, bc: self.bc.to_bc::<T>(&self.trailing) };
        // equal lanes: in half of the cases the data is a broadcast (stride 0) view of its first lane
        let built = match crate::gen1d::broadcastable(&self.data, self.n, self.lanes) {
            Some(col) if crate::common::splitmix(col[0].to_bits()) & 1 == 0 => {
                let mut bshape = vec![self.n];
                bshape.extend(self.trailing.iter().map(|_| 1));
                crate::adapt::build1_bcast::<T>(xo, arr_d::<T>(&bshape, &col), &self.shape(), self.dd, &strat)
            }
            _ => build1::<T>(xo, crate::layout::realise(arr_d::<T>(&self.shape(), &self.data), self.lay, T::of(-3.5e5)), self.dd, &strat),
        };
        match built {
            Some(Ok(i)) => Ok(i),
            Some(Err(e)) => Err(Fail::new("build-failed", format!("valid spline input rejected: {e}"))),
            None => Err(Fail::new("oracle-bug", "spline case not expressible in its dimension type")),
        }
    }

    pub fn classes(&self, out: &mut crate::common::Obs) {
        out.class(format!("axis:{}", self.axis_class.name()));
        out.class(format!("bc:{}", self.bc.name()));
        if let BcSel::Individual(v) = &self.bc {
            if v.len() >= 2 && v.iter().all(|s| *s == v[0]) {
                out.class("bc:Individual/all-rows-equal");
            } else if self.trailing.len() >= 2 {
                let b = *self.trailing.last().unwrap();
                if b >= 2 && (0..v.len()).all(|l| v[l] == v[(l / b) * b]) {
                    out.class("bc:Individual/equal-along-last-axis");
                }
            }
        }
        out.class(match self.n {
            3 => "n:3",
            4 => "n:4",
            5..=12 => "n:5-12",
            13..=40 => "n:13-40",
            _ => "n:41+",
        });
        out.class(format!("trailing_axes:{}", self.trailing.len()));
        if self.lanes >= 32 {
            out.class("lanes:32+");
        }
        out.class(format!("ddim:{}", self.dd.name()));
        out.class(format!("datalayout:{}", self.lay.0.name()));
        if !is_uniform(&self.x) {
            out.class("axis:non-uniform");
            let n = self.n;
            if self.x[1] - self.x[0] != self.x[2] - self.x[1] {
                out.class("h0!=h1");
            }
            if self.x[n - 1] - self.x[n - 2] != self.x[n - 2] - self.x[n - 3] {
                out.class("h[n-2]!=h[n-3]");
            }
        }
        for l in 0..self.lanes {
            let d = self.lane_data(l);
            if d.iter().all(|v| *v == d[0]) {
                out.class("lane:constant");
            }
            if l > 0 && d == self.lane_data(0) {
                out.class("lane:duplicate-of-lane-0");
            }
            if l == 1 {
                if let Some(col) = crate::gen1d::broadcastable(&self.data, self.n, self.lanes) {
                    out.class(if crate::common::splitmix(col[0].to_bits()) & 1 == 0 { "data:broadcast-view" } else { "data:equal-lanes" });
                }
            }
        }
        if !self.bc.is_periodic() {
            for l in 0..self.lanes.min(4) {
                let (a, b) = self.bc.lane(l).ends();
                out.class(format!("pair:{}|{}", a.name(), b.name()));
            }
        }
    }

    pub fn describe<T: Flt>(&self) -> Value {
        json!({"T": T::NAME, "n": self.n, "axis_class": self.axis_class.name(),
            "x": crate::checks::ffs::<T>(&self.x, 8), "trailing": self.trailing, "data_dim": self.dd.name(),
            "data": crate::checks::ffs::<T>(&self.data, 8), "boundary": self.bc.describe()})
    }

    pub fn key(&self, obs: &mut crate::common::Obs) {
        obs.key_f64s(&self.x);
        obs.key_f64s(&self.data);
        obs.key(&format!("{:?}", self.bc));
    }
}

/// sample abscissae on interval i: ends, quarter points, midpoint (rounded to T, clamped, deduped)
pub fn interval_samples<T: Flt>(x: &[f64], i: usize) -> Vec<f64> {
    let (a, b) = (x[i], x[i + 1]);
    let mut out: Vec<f64> = Vec::with_capacity(5);
    for t in [0.0, 0.25, 0.5, 0.75, 1.0] {
        let q = if t == 0.0 {
            a
        } else if t == 1.0 {
            b
        } else {
            T::of(a + (b - a) * t).f().clamp(a, b)
        };
        if out.last().map(|&l| l < q).unwrap_or(true) {
            out.push(q);
        }
    }
    out
}
