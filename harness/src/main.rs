mod adapt;
mod checks;
mod cli;
mod common;
mod constants;
mod exact;
mod gen;
mod gen1d;
mod layout;
mod oracle;
mod recstrat;
mod splinegen;

use common::*;

fn registry() -> Vec<Box<dyn Check>> {
    vec![Box::new(checks::c01::C01), Box::new(checks::c02::C02), Box::new(checks::c03::C03), Box::new(checks::c04::C04), Box::new(checks::c05::C05), Box::new(checks::c06::C06), Box::new(checks::c07::C07), Box::new(checks::c08::C08), Box::new(checks::c09::C09), Box::new(checks::c10::C10), Box::new(checks::c11::C11), Box::new(checks::c12::C12), Box::new(checks::c13::C13), Box::new(checks::c14::C14), Box::new(checks::c15::C15), Box::new(checks::c16::C16), Box::new(checks::c17::C17), Box::new(checks::c18::C18), Box::new(checks::c20::C20)]
}

fn main() {
    cli::run_cli(registry, || exact::selftest(0x5eed).map(|_| ()).map_err(|e| format!("exact arithmetic: {e}")));
}
