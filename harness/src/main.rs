fn main() {
    vcheck::cli::run_cli(vcheck::registry, vcheck::selftest);
}
