//! Coverage-guided entry: one libFuzzer target drives the same entropy decoders and check
//! functions as the proptest driver. The property is selected with VERIF_FUZZ_ID.

use crate::common::*;
use std::sync::OnceLock;

static CHECK: OnceLock<Box<dyn Check>> = OnceLock::new();
static KNOWN: OnceLock<Known> = OnceLock::new();

pub fn one(data: &[u8]) {
    let check = CHECK.get_or_init(|| {
        // libFuzzer installs a panic hook that aborts; the checks rely on catch_unwind for calls
        // that are documented to panic, so the quiet recording hook replaces it
        install_quiet_panic_hook();
        let id = std::env::var("VERIF_FUZZ_ID").unwrap_or_else(|_| "C14".to_string());
        crate::registry().into_iter().find(|c| c.id() == id).unwrap_or_else(|| {
            eprintln!("VERIF_FUZZ_ID={id}: no such check");
            std::process::exit(2)
        })
    });
    let known = KNOWN.get_or_init(Known::load);
    let w = words(data, check.entropy_len());
    let mut obs = Obs::default();
    if let Err(f) = guarded_case(check.as_ref(), &w, &mut obs) {
        if f.sig == "oracle-bug" || known.matches(check.id(), &f.sig).is_some() {
            return;
        }
        let (w, f) = shrink(check.as_ref(), w, f, known);
        let mut obs = Obs { want_desc: true, ..Obs::default() };
        let _ = guarded_case(check.as_ref(), &w, &mut obs);
        let path = write_replay(check.id(), &serde_json::json!({"property": check.id(), "kind": "entropy", "entropy": w, "tier": "thorough", "seed": 0,
            "signature": f.sig, "message": f.msg, "case": obs.desc, "source": "libFuzzer"}));
        eprintln!("FUZZ-VIOLATION property={} replay={path}\n{}", check.id(), f.msg);
        std::process::abort();
    }
}
