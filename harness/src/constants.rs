//! Calibrated constants of the tolerance model (DESIGN 3.4). See notes/calibration.md.
//! Thorough run of C03 on the repaired tree (300 000 data sets, 26 M comparisons): largest observed
//! |impl - exact| / (u * sigma_i * 1.25) was 533 (f64) and 408 (f32).
//! K = next power of two above 256 x that (f64) resp. 64 x that (f32).
pub const K_F64: f64 = 262144.0; // 2^18
pub const K_F32: f64 = 32768.0; // 2^15
