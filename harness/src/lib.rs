//! Verification harness for jonasBoss/ndarray-interp (library part: checks, oracles, generators).
#![allow(clippy::too_many_arguments, clippy::type_complexity, clippy::needless_range_loop)]

pub mod adapt;
pub mod checks;
pub mod cli;
pub mod common;
pub mod constants;
pub mod exact;
pub mod fuzz;
pub mod gen;
pub mod gen1d;
pub mod layout;
pub mod oracle;
pub mod recstrat;
pub mod splinegen;

use common::Check;

/// every check served by the vcheck binary (C19 lives in the vmatrix binary)
pub fn registry() -> Vec<Box<dyn Check>> {
    vec![
        Box::new(checks::c01::C01),
        Box::new(checks::c02::C02),
        Box::new(checks::c03::C03),
        Box::new(checks::c04::C04),
        Box::new(checks::c05::C05),
        Box::new(checks::c06::C06),
        Box::new(checks::c07::C07),
        Box::new(checks::c08::C08),
        Box::new(checks::c09::C09),
        Box::new(checks::c10::C10),
        Box::new(checks::c11::C11),
        Box::new(checks::c12::C12),
        Box::new(checks::c13::C13),
        Box::new(checks::c14::C14),
        Box::new(checks::c15::C15),
        Box::new(checks::c16::C16),
        Box::new(checks::c17::C17),
        Box::new(checks::c18::C18),
        Box::new(checks::c20::C20),
    ]
}

pub fn selftest() -> Result<(), String> {
    exact::selftest(0x5eed).map(|_| ()).map_err(|e| format!("exact arithmetic: {e}"))
}
