//! Exact arithmetic for the reference models: sign-magnitude big integers over u32 limbs
//! and normalised rationals. No arbitrary-precision crate is available offline, so this is
//! hand written and self-tested (`selftest`, run by every check before it trusts an oracle).

use std::cmp::Ordering;
use std::fmt;

#[derive(Clone, PartialEq, Eq, Hash)]
pub struct BigInt {
    neg: bool,
    mag: Vec<u32>, // little endian, no trailing zero limbs; zero = empty, neg=false
}

fn trim(v: &mut Vec<u32>) {
    while let Some(&0) = v.last() {
        v.pop();
    }
}

fn cmp_mag(a: &[u32], b: &[u32]) -> Ordering {
    if a.len() != b.len() {
        return a.len().cmp(&b.len());
    }
    for i in (0..a.len()).rev() {
        if a[i] != b[i] {
            return a[i].cmp(&b[i]);
        }
    }
    Ordering::Equal
}

fn add_mag(a: &[u32], b: &[u32]) -> Vec<u32> {
    let (a, b) = if a.len() >= b.len() { (a, b) } else { (b, a) };
    let mut r = Vec::with_capacity(a.len() + 1);
    let mut carry = 0u64;
    for i in 0..a.len() {
        let s = a[i] as u64 + if i < b.len() { b[i] as u64 } else { 0 } + carry;
        r.push(s as u32);
        carry = s >> 32;
    }
    if carry != 0 {
        r.push(carry as u32);
    }
    r
}

/// a - b, requires a >= b
fn sub_mag(a: &[u32], b: &[u32]) -> Vec<u32> {
    let mut r = Vec::with_capacity(a.len());
    let mut borrow = 0i64;
    for i in 0..a.len() {
        let mut d = a[i] as i64 - borrow - if i < b.len() { b[i] as i64 } else { 0 };
        if d < 0 {
            d += 1 << 32;
            borrow = 1;
        } else {
            borrow = 0;
        }
        r.push(d as u32);
    }
    debug_assert_eq!(borrow, 0);
    trim(&mut r);
    r
}

fn mul_mag(a: &[u32], b: &[u32]) -> Vec<u32> {
    if a.is_empty() || b.is_empty() {
        return Vec::new();
    }
    let mut r = vec![0u32; a.len() + b.len()];
    for i in 0..a.len() {
        let mut carry = 0u64;
        let ai = a[i] as u64;
        if ai == 0 {
            continue;
        }
        for j in 0..b.len() {
            let t = ai * b[j] as u64 + r[i + j] as u64 + carry;
            r[i + j] = t as u32;
            carry = t >> 32;
        }
        let mut k = i + b.len();
        while carry != 0 {
            let t = r[k] as u64 + carry;
            r[k] = t as u32;
            carry = t >> 32;
            k += 1;
        }
    }
    trim(&mut r);
    r
}

fn shl_mag(a: &[u32], n: usize) -> Vec<u32> {
    if a.is_empty() {
        return Vec::new();
    }
    let limbs = n / 32;
    let bits = (n % 32) as u32;
    let mut r = vec![0u32; limbs];
    if bits == 0 {
        r.extend_from_slice(a);
    } else {
        let mut carry = 0u32;
        for &x in a {
            r.push((x << bits) | carry);
            carry = x >> (32 - bits);
        }
        if carry != 0 {
            r.push(carry);
        }
    }
    r
}

fn shr_mag(a: &[u32], n: usize) -> Vec<u32> {
    let limbs = n / 32;
    let bits = (n % 32) as u32;
    if limbs >= a.len() {
        return Vec::new();
    }
    let mut r = Vec::with_capacity(a.len() - limbs);
    if bits == 0 {
        r.extend_from_slice(&a[limbs..]);
    } else {
        for i in limbs..a.len() {
            let lo = a[i] >> bits;
            let hi = if i + 1 < a.len() { a[i + 1] << (32 - bits) } else { 0 };
            r.push(lo | hi);
        }
    }
    trim(&mut r);
    r
}

fn bitlen_mag(a: &[u32]) -> usize {
    match a.last() {
        None => 0,
        Some(&t) => (a.len() - 1) * 32 + (32 - t.leading_zeros() as usize),
    }
}

fn tz_mag(a: &[u32]) -> usize {
    for (i, &x) in a.iter().enumerate() {
        if x != 0 {
            return i * 32 + x.trailing_zeros() as usize;
        }
    }
    0
}

/// Knuth algorithm D. Returns (quotient, remainder). b must be non-zero.
fn divrem_mag(a: &[u32], b: &[u32]) -> (Vec<u32>, Vec<u32>) {
    assert!(!b.is_empty(), "division by zero");
    if cmp_mag(a, b) == Ordering::Less {
        return (Vec::new(), a.to_vec());
    }
    if b.len() == 1 {
        let d = b[0] as u64;
        let mut q = vec![0u32; a.len()];
        let mut rem = 0u64;
        for i in (0..a.len()).rev() {
            let cur = (rem << 32) | a[i] as u64;
            q[i] = (cur / d) as u32;
            rem = cur % d;
        }
        trim(&mut q);
        let mut r = vec![rem as u32];
        trim(&mut r);
        return (q, r);
    }
    let s = b[b.len() - 1].leading_zeros() as usize;
    let v = shl_mag(b, s);
    let mut u = shl_mag(a, s);
    if u.len() == a.len() {
        u.push(0);
    }
    let n = v.len();
    let m = u.len() - n - 1;
    let mut q = vec![0u32; m + 1];
    let base = 1u64 << 32;
    for j in (0..=m).rev() {
        let num = ((u[j + n] as u64) << 32) | u[j + n - 1] as u64;
        let mut qhat = num / v[n - 1] as u64;
        let mut rhat = num % v[n - 1] as u64;
        while qhat >= base || qhat * v[n - 2] as u64 > ((rhat << 32) | u[j + n - 2] as u64) {
            qhat -= 1;
            rhat += v[n - 1] as u64;
            if rhat >= base {
                break;
            }
        }
        // multiply and subtract
        let mut borrow = 0i64;
        let mut carry = 0u64;
        for i in 0..n {
            let p = qhat * v[i] as u64 + carry;
            carry = p >> 32;
            let t = u[i + j] as i64 - borrow - (p & 0xffff_ffff) as i64;
            if t < 0 {
                u[i + j] = (t + (1i64 << 32)) as u32;
                borrow = 1;
            } else {
                u[i + j] = t as u32;
                borrow = 0;
            }
        }
        let t = u[j + n] as i64 - borrow - carry as i64;
        if t < 0 {
            u[j + n] = (t + (1i64 << 32)) as u32;
            // add back
            qhat -= 1;
            let mut c = 0u64;
            for i in 0..n {
                let s2 = u[i + j] as u64 + v[i] as u64 + c;
                u[i + j] = s2 as u32;
                c = s2 >> 32;
            }
            u[j + n] = (u[j + n] as u64 + c) as u32;
        } else {
            u[j + n] = t as u32;
        }
        q[j] = qhat as u32;
    }
    trim(&mut q);
    u.truncate(n);
    trim(&mut u);
    let r = shr_mag(&u, s);
    (q, r)
}

fn to64(a: &[u32]) -> Vec<u64> {
    let mut r = Vec::with_capacity(a.len() / 2 + 1);
    let mut i = 0;
    while i < a.len() {
        let lo = a[i] as u64;
        let hi = if i + 1 < a.len() { a[i + 1] as u64 } else { 0 };
        r.push(lo | (hi << 32));
        i += 2;
    }
    while let Some(&0) = r.last() {
        r.pop();
    }
    r
}

fn from64(a: &[u64]) -> Vec<u32> {
    let mut r = Vec::with_capacity(a.len() * 2);
    for &x in a {
        r.push(x as u32);
        r.push((x >> 32) as u32);
    }
    trim(&mut r);
    r
}

fn tz64(a: &[u64]) -> usize {
    for (i, &x) in a.iter().enumerate() {
        if x != 0 {
            return i * 64 + x.trailing_zeros() as usize;
        }
    }
    0
}

fn shr64_inplace(a: &mut Vec<u64>, n: usize) {
    if n == 0 {
        return;
    }
    let limbs = n / 64;
    let bits = (n % 64) as u32;
    if limbs >= a.len() {
        a.clear();
        return;
    }
    let len = a.len() - limbs;
    if bits == 0 {
        for i in 0..len {
            a[i] = a[i + limbs];
        }
    } else {
        for i in 0..len {
            let lo = a[i + limbs] >> bits;
            let hi = if i + limbs + 1 < a.len() { a[i + limbs + 1] << (64 - bits) } else { 0 };
            a[i] = lo | hi;
        }
    }
    a.truncate(len);
    while let Some(&0) = a.last() {
        a.pop();
    }
}

fn cmp64(a: &[u64], b: &[u64]) -> Ordering {
    if a.len() != b.len() {
        return a.len().cmp(&b.len());
    }
    for i in (0..a.len()).rev() {
        if a[i] != b[i] {
            return a[i].cmp(&b[i]);
        }
    }
    Ordering::Equal
}

/// a -= b (a >= b)
fn sub64_inplace(a: &mut Vec<u64>, b: &[u64]) {
    let mut borrow = false;
    for i in 0..a.len() {
        let bi = if i < b.len() { b[i] } else { 0 };
        let (d1, o1) = a[i].overflowing_sub(bi);
        let (d2, o2) = d1.overflowing_sub(borrow as u64);
        a[i] = d2;
        borrow = o1 || o2;
        if i >= b.len() && !borrow {
            break;
        }
    }
    while let Some(&0) = a.last() {
        a.pop();
    }
}

/// gcd of magnitudes: one Knuth division to balance the sizes, then in-place binary gcd
fn gcd_mag(a: &[u32], b: &[u32]) -> Vec<u32> {
    if a.is_empty() {
        return b.to_vec();
    }
    if b.is_empty() {
        return a.to_vec();
    }
    let (mut a, mut b) = (a.to_vec(), b.to_vec());
    // balance
    for _ in 0..2 {
        if cmp_mag(&a, &b) == Ordering::Less {
            std::mem::swap(&mut a, &mut b);
        }
        if bitlen_mag(&a) > bitlen_mag(&b) + 48 {
            let (_, r) = divrem_mag(&a, &b);
            a = r;
            if a.is_empty() {
                return b;
            }
        }
    }
    let mut a = to64(&a);
    let mut b = to64(&b);
    let za = tz64(&a);
    let zb = tz64(&b);
    let z = za.min(zb);
    shr64_inplace(&mut a, za);
    shr64_inplace(&mut b, zb);
    loop {
        match cmp64(&a, &b) {
            Ordering::Equal => break,
            Ordering::Greater => {
                sub64_inplace(&mut a, &b);
                let t = tz64(&a);
                shr64_inplace(&mut a, t);
            }
            Ordering::Less => {
                sub64_inplace(&mut b, &a);
                let t = tz64(&b);
                shr64_inplace(&mut b, t);
            }
        }
    }
    shl_mag(&from64(&a), z)
}

impl BigInt {
    pub fn zero() -> Self {
        BigInt { neg: false, mag: Vec::new() }
    }
    pub fn one() -> Self {
        BigInt::from_u64(1)
    }
    pub fn from_u64(v: u64) -> Self {
        let mut mag = vec![v as u32, (v >> 32) as u32];
        trim(&mut mag);
        BigInt { neg: false, mag }
    }
    pub fn from_i64(v: i64) -> Self {
        let mut r = BigInt::from_u64(v.unsigned_abs());
        r.neg = v < 0;
        r
    }
    pub fn from_i128(v: i128) -> Self {
        let a = v.unsigned_abs();
        let mut mag = vec![a as u32, (a >> 32) as u32, (a >> 64) as u32, (a >> 96) as u32];
        trim(&mut mag);
        let neg = v < 0 && !mag.is_empty();
        BigInt { neg, mag }
    }
    fn from_mag(neg: bool, mut mag: Vec<u32>) -> Self {
        trim(&mut mag);
        let neg = neg && !mag.is_empty();
        BigInt { neg, mag }
    }
    pub fn is_zero(&self) -> bool {
        self.mag.is_empty()
    }
    pub fn is_neg(&self) -> bool {
        self.neg
    }
    pub fn signum(&self) -> i32 {
        if self.mag.is_empty() {
            0
        } else if self.neg {
            -1
        } else {
            1
        }
    }
    pub fn bit_len(&self) -> usize {
        bitlen_mag(&self.mag)
    }
    pub fn trailing_zeros(&self) -> usize {
        tz_mag(&self.mag)
    }
    pub fn is_one(&self) -> bool {
        !self.neg && self.mag.len() == 1 && self.mag[0] == 1
    }
    pub fn neg(&self) -> Self {
        BigInt::from_mag(!self.neg, self.mag.clone())
    }
    pub fn abs(&self) -> Self {
        BigInt { neg: false, mag: self.mag.clone() }
    }
    pub fn add(&self, o: &Self) -> Self {
        if self.neg == o.neg {
            BigInt::from_mag(self.neg, add_mag(&self.mag, &o.mag))
        } else {
            match cmp_mag(&self.mag, &o.mag) {
                Ordering::Equal => BigInt::zero(),
                Ordering::Greater => BigInt::from_mag(self.neg, sub_mag(&self.mag, &o.mag)),
                Ordering::Less => BigInt::from_mag(o.neg, sub_mag(&o.mag, &self.mag)),
            }
        }
    }
    pub fn sub(&self, o: &Self) -> Self {
        self.add(&o.neg())
    }
    pub fn mul(&self, o: &Self) -> Self {
        BigInt::from_mag(self.neg != o.neg, mul_mag(&self.mag, &o.mag))
    }
    pub fn shl(&self, n: usize) -> Self {
        BigInt::from_mag(self.neg, shl_mag(&self.mag, n))
    }
    /// magnitude shift right (truncation toward zero)
    pub fn shr(&self, n: usize) -> Self {
        BigInt::from_mag(self.neg, shr_mag(&self.mag, n))
    }
    /// truncated division: self = q*o + r, |r| < |o|, sign(r) = sign(self)
    pub fn div_rem(&self, o: &Self) -> (Self, Self) {
        let (q, r) = divrem_mag(&self.mag, &o.mag);
        (BigInt::from_mag(self.neg != o.neg, q), BigInt::from_mag(self.neg, r))
    }
    /// floor division
    pub fn div_floor(&self, o: &Self) -> Self {
        let (q, r) = self.div_rem(o);
        if !r.is_zero() && (r.neg != o.neg) {
            q.sub(&BigInt::one())
        } else {
            q
        }
    }
    pub fn gcd(&self, o: &Self) -> Self {
        BigInt::from_mag(false, gcd_mag(&self.mag, &o.mag))
    }
    /// exact division (caller guarantees divisibility)
    pub fn div_exact(&self, o: &Self) -> Self {
        if o.is_one() {
            return self.clone();
        }
        let (q, r) = self.div_rem(o);
        debug_assert!(r.is_zero());
        q
    }
    pub fn cmp(&self, o: &Self) -> Ordering {
        match (self.neg, o.neg) {
            (false, true) => Ordering::Greater,
            (true, false) => Ordering::Less,
            (false, false) => cmp_mag(&self.mag, &o.mag),
            (true, true) => cmp_mag(&o.mag, &self.mag),
        }
    }
    /// approximate conversion (correct to ~1 ulp, never used in a verdict)
    pub fn to_f64(&self) -> f64 {
        let bl = self.bit_len();
        if bl == 0 {
            return 0.0;
        }
        let (m, e) = if bl > 64 {
            (shr_mag(&self.mag, bl - 64), (bl - 64) as i32)
        } else {
            (self.mag.clone(), 0)
        };
        let mut v = 0u64;
        for (i, &l) in m.iter().enumerate() {
            v |= (l as u64) << (32 * i);
        }
        let f = (v as f64) * 2f64.powi(e.min(2000));
        if self.neg {
            -f
        } else {
            f
        }
    }
    pub fn to_i128(&self) -> Option<i128> {
        if self.bit_len() > 126 {
            return None;
        }
        let mut v = 0i128;
        for (i, &l) in self.mag.iter().enumerate() {
            v |= (l as i128) << (32 * i);
        }
        Some(if self.neg { -v } else { v })
    }
}

impl fmt::Debug for BigInt {
    fn fmt(&self, f: &mut fmt::Formatter<'_>) -> fmt::Result {
        write!(f, "{}0x", if self.neg { "-" } else { "" })?;
        if self.mag.is_empty() {
            return write!(f, "0");
        }
        for (i, l) in self.mag.iter().rev().enumerate() {
            if i == 0 {
                write!(f, "{:x}", l)?;
            } else {
                write!(f, "{:08x}", l)?;
            }
        }
        Ok(())
    }
}

/// Normalised rational: den > 0, gcd(num, den) = 1.
#[derive(Clone, PartialEq, Eq, Hash)]
pub struct Rat {
    num: BigInt,
    den: BigInt,
}

impl fmt::Debug for Rat {
    fn fmt(&self, f: &mut fmt::Formatter<'_>) -> fmt::Result {
        write!(f, "{:e}", self.to_f64())
    }
}

impl Rat {
    pub fn new(num: BigInt, den: BigInt) -> Self {
        assert!(!den.is_zero(), "Rat with zero denominator");
        if num.is_zero() {
            return Rat { num, den: BigInt::one() };
        }
        let g = num.gcd(&den);
        let (mut n, mut d) = if g.is_one() {
            (num, den)
        } else {
            (num.div_exact(&g), den.div_exact(&g))
        };
        if d.is_neg() {
            n = n.neg();
            d = d.neg();
        }
        Rat { num: n, den: d }
    }
    pub fn zero() -> Self {
        Rat { num: BigInt::zero(), den: BigInt::one() }
    }
    pub fn one() -> Self {
        Rat::from_i64(1)
    }
    pub fn from_i64(v: i64) -> Self {
        Rat { num: BigInt::from_i64(v), den: BigInt::one() }
    }
    pub fn from_big(v: BigInt) -> Self {
        Rat { num: v, den: BigInt::one() }
    }
    pub fn ratio(a: i64, b: i64) -> Self {
        Rat::new(BigInt::from_i64(a), BigInt::from_i64(b))
    }
    /// 2^e
    pub fn pow2(e: i32) -> Self {
        if e >= 0 {
            Rat { num: BigInt::one().shl(e as usize), den: BigInt::one() }
        } else {
            Rat { num: BigInt::one(), den: BigInt::one().shl((-e) as usize) }
        }
    }
    /// exact value of a finite double
    pub fn from_f64(v: f64) -> Self {
        assert!(v.is_finite(), "Rat::from_f64 of non-finite {v}");
        if v == 0.0 {
            return Rat::zero();
        }
        let bits = v.to_bits();
        let neg = bits >> 63 != 0;
        let be = ((bits >> 52) & 0x7ff) as i32;
        let frac = bits & ((1u64 << 52) - 1);
        let (m, e) = if be == 0 { (frac, -1074) } else { (frac | (1u64 << 52), be - 1075) };
        let tz = m.trailing_zeros() as i32;
        let m = m >> tz;
        let e = e + tz;
        let mut num = BigInt::from_u64(m);
        if neg {
            num = num.neg();
        }
        if e >= 0 {
            Rat { num: num.shl(e as usize), den: BigInt::one() }
        } else {
            Rat { num, den: BigInt::one().shl((-e) as usize) }
        }
    }
    pub fn from_f32(v: f32) -> Self {
        Rat::from_f64(v as f64)
    }
    pub fn is_zero(&self) -> bool {
        self.num.is_zero()
    }
    pub fn signum(&self) -> i32 {
        self.num.signum()
    }
    pub fn neg(&self) -> Self {
        Rat { num: self.num.neg(), den: self.den.clone() }
    }
    pub fn abs(&self) -> Self {
        Rat { num: self.num.abs(), den: self.den.clone() }
    }
    pub fn add(&self, o: &Self) -> Self {
        if self.num.is_zero() {
            return o.clone();
        }
        if o.num.is_zero() {
            return self.clone();
        }
        if self.den == o.den {
            return Rat::new(self.num.add(&o.num), self.den.clone());
        }
        // Knuth 4.5.1: only gcds of the smaller operands
        let g = self.den.gcd(&o.den);
        if g.is_one() {
            return Rat {
                num: self.num.mul(&o.den).add(&o.num.mul(&self.den)),
                den: self.den.mul(&o.den),
            };
        }
        let d1 = self.den.div_exact(&g);
        let d2 = o.den.div_exact(&g);
        let t = self.num.mul(&d2).add(&o.num.mul(&d1));
        if t.is_zero() {
            return Rat::zero();
        }
        let g2 = t.gcd(&g);
        if g2.is_one() {
            Rat { num: t, den: d1.mul(&o.den) }
        } else {
            Rat { num: t.div_exact(&g2), den: d1.mul(&o.den.div_exact(&g2)) }
        }
    }
    pub fn sub(&self, o: &Self) -> Self {
        self.add(&o.neg())
    }
    pub fn mul(&self, o: &Self) -> Self {
        if self.num.is_zero() || o.num.is_zero() {
            return Rat::zero();
        }
        let g1 = self.num.gcd(&o.den);
        let g2 = o.num.gcd(&self.den);
        let (n1, d2) = if g1.is_one() { (self.num.clone(), o.den.clone()) } else { (self.num.div_exact(&g1), o.den.div_exact(&g1)) };
        let (n2, d1) = if g2.is_one() { (o.num.clone(), self.den.clone()) } else { (o.num.div_exact(&g2), self.den.div_exact(&g2)) };
        Rat { num: n1.mul(&n2), den: d1.mul(&d2) }
    }
    pub fn div(&self, o: &Self) -> Self {
        assert!(!o.is_zero(), "Rat division by zero");
        let r = if o.num.is_neg() {
            Rat { num: o.den.neg(), den: o.num.neg() }
        } else {
            Rat { num: o.den.clone(), den: o.num.clone() }
        };
        self.mul(&r)
    }
    pub fn recip(&self) -> Self {
        Rat::one().div(self)
    }
    pub fn cmp(&self, o: &Self) -> Ordering {
        self.num.mul(&o.den).cmp(&o.num.mul(&self.den))
    }
    pub fn lt(&self, o: &Self) -> bool {
        self.cmp(o) == Ordering::Less
    }
    pub fn le(&self, o: &Self) -> bool {
        self.cmp(o) != Ordering::Greater
    }
    pub fn max(&self, o: &Self) -> Self {
        if self.lt(o) {
            o.clone()
        } else {
            self.clone()
        }
    }
    pub fn min(&self, o: &Self) -> Self {
        if self.lt(o) {
            self.clone()
        } else {
            o.clone()
        }
    }
    pub fn floor(&self) -> BigInt {
        self.num.div_floor(&self.den)
    }
    pub fn mul_i(&self, k: i64) -> Self {
        self.mul(&Rat::from_i64(k))
    }
    pub fn div_i(&self, k: i64) -> Self {
        self.div(&Rat::from_i64(k))
    }
    pub fn bits(&self) -> usize {
        self.num.bit_len() + self.den.bit_len()
    }
    /// approximate conversion (relative error <= 2^-52), for reporting and for scale
    /// quantities that are themselves only bounds; never decides a comparison alone.
    pub fn to_f64(&self) -> f64 {
        if self.num.is_zero() {
            return 0.0;
        }
        let nb = self.num.bit_len() as i64;
        let db = self.den.bit_len() as i64;
        // scale so that the quotient has ~64 bits
        let shift = 64 - (nb - db);
        let (n, d) = if shift >= 0 {
            (self.num.abs().shl(shift as usize), self.den.clone())
        } else {
            (self.num.abs(), self.den.shl((-shift) as usize))
        };
        let q = n.div_rem(&d).0;
        let f = q.to_f64();
        let e = -shift;
        let r = if e > 1000 {
            f * 2f64.powi(1000) * 2f64.powi((e - 1000) as i32)
        } else if e < -1000 {
            f * 2f64.powi(-1000) * 2f64.powi((e + 1000).max(-1100) as i32)
        } else {
            f * 2f64.powi(e as i32)
        };
        if self.num.is_neg() {
            -r
        } else {
            r
        }
    }
    /// an upper bound of |self| as a double (rounded up generously)
    pub fn abs_upper_f64(&self) -> f64 {
        let a = self.to_f64().abs();
        a * (1.0 + 1e-12) + f64::MIN_POSITIVE
    }
}

/// Horner evaluation of sum c[i] x^i
pub fn poly_eval(c: &[Rat], x: &Rat) -> Rat {
    let mut r = Rat::zero();
    for ci in c.iter().rev() {
        r = r.mul(x).add(ci);
    }
    r
}

pub fn poly_deriv(c: &[Rat]) -> Vec<Rat> {
    c.iter().enumerate().skip(1).map(|(i, ci)| ci.mul_i(i as i64)).collect()
}

/// Self test driven by a simple deterministic sequence derived from `seed`.
/// Returns Err(description) when the arithmetic is broken (=> exit 2, never a violation).
pub fn selftest(seed: u64) -> Result<u64, String> {
    let mut s = seed | 1;
    let mut next = move || {
        // splitmix64
        s = s.wrapping_add(0x9E3779B97F4A7C15);
        let mut z = s;
        z = (z ^ (z >> 30)).wrapping_mul(0xBF58476D1CE4E5B9);
        z = (z ^ (z >> 27)).wrapping_mul(0x94D049BB133111EB);
        z ^ (z >> 31)
    };
    let mut n = 0u64;
    // agreement with i128 on small operands
    for _ in 0..2000 {
        let a = (next() as i64 >> (next() % 40)) as i128;
        let b = (next() as i64 >> (next() % 40)) as i128;
        let (ba, bb) = (BigInt::from_i128(a), BigInt::from_i128(b));
        if ba.add(&bb).to_i128() != Some(a + b) {
            return Err(format!("add {a} {b}"));
        }
        if ba.sub(&bb).to_i128() != Some(a - b) {
            return Err(format!("sub {a} {b}"));
        }
        if ba.mul(&bb).to_i128() != Some(a * b) {
            return Err(format!("mul {a} {b}"));
        }
        if b != 0 {
            let (q, r) = ba.div_rem(&bb);
            if q.to_i128() != Some(a / b) || r.to_i128() != Some(a % b) {
                return Err(format!("divrem {a} {b}"));
            }
            let fl = {
                let q = a / b;
                if a % b != 0 && ((a < 0) != (b < 0)) {
                    q - 1
                } else {
                    q
                }
            };
            if ba.div_floor(&bb).to_i128() != Some(fl) {
                return Err(format!("div_floor {a} {b}"));
            }
        }
        let g = ba.gcd(&bb);
        if !g.is_zero() {
            if !ba.div_rem(&g).1.is_zero() || !bb.div_rem(&g).1.is_zero() {
                return Err(format!("gcd {a} {b}"));
            }
        }
        n += 5;
    }
    // big operands: division identity and ring laws
    let mut big = |limbs: usize| -> BigInt {
        let mut m: Vec<u32> = (0..limbs).map(|_| next() as u32).collect();
        if next() % 4 == 0 && !m.is_empty() {
            let l = m.len() - 1;
            m[l] = 0xffff_ffff;
        }
        BigInt::from_mag(next() % 2 == 0, std::mem::take(&mut m))
    };
    for i in 0..600 {
        let a = big(1 + i % 23);
        let b = big(1 + (i * 7) % 11);
        let c = big(1 + (i * 3) % 5);
        if b.is_zero() {
            continue;
        }
        let (q, r) = a.div_rem(&b);
        if q.mul(&b).add(&r) != a || cmp_mag(&r.mag, &b.mag) != Ordering::Less {
            return Err(format!("big divrem {a:?} {b:?}"));
        }
        if a.add(&b).mul(&c) != a.mul(&c).add(&b.mul(&c)) {
            return Err("distributivity".into());
        }
        if a.mul(&b) != b.mul(&a) || a.add(&b).sub(&b) != a {
            return Err("commutativity/inverse".into());
        }
        let sh = (i * 13) % 97;
        if a.shl(sh).shr(sh) != a || a.shl(sh) != a.mul(&BigInt::one().shl(sh)) {
            return Err("shift".into());
        }
        n += 4;
    }
    // rationals: field laws, from_f64 round trip, ordering
    for _ in 0..600 {
        let fa = f64::from_bits(next() & 0x7fff_ffff_ffff_ffff | (next() & (1 << 63)));
        let fb = f64::from_bits(next());
        let fa = if fa.is_finite() { fa * 1e-150 } else { 1.5 };
        let fb = if fb.is_finite() && fb.abs() < 1e150 && fb.abs() > 1e-150 { fb } else { -0.375 };
        let (a, b) = (Rat::from_f64(fa), Rat::from_f64(fb));
        if a.to_f64() != fa || b.to_f64() != fb {
            return Err(format!("from_f64/to_f64 {fa:e} {fb:e} -> {:e} {:e}", a.to_f64(), b.to_f64()));
        }
        if a.cmp(&b) != fa.partial_cmp(&fb).unwrap() {
            return Err("ordering".into());
        }
        let c = Rat::ratio((next() % 1000) as i64 - 500, (next() % 999) as i64 + 1);
        if a.add(&b).mul(&c) != a.mul(&c).add(&b.mul(&c)) {
            return Err("rat distributivity".into());
        }
        if !b.is_zero() && a.div(&b).mul(&b) != a {
            return Err("rat div".into());
        }
        if a.sub(&a) != Rat::zero() {
            return Err("rat sub".into());
        }
        for r in [a.add(&c), a.mul(&c), a.add(&b).div(&c.add(&Rat::ratio(1001, 7))), a.sub(&b).mul(&c)] {
            if r != Rat::new(r.num.clone(), r.den.clone()) || r.den.signum() != 1 {
                return Err("rat result not normalised".into());
            }
        }
        n += 5;
    }
    // floor
    for (p, q, f) in [(7i64, 2i64, 3i64), (-7, 2, -4), (6, 3, 2), (-6, 3, -2), (0, 5, 0), (-1, 1000, -1)] {
        if Rat::ratio(p, q).floor().to_i128() != Some(f as i128) {
            return Err(format!("floor {p}/{q}"));
        }
        n += 1;
    }
    Ok(n)
}
