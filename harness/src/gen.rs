//! Numeric trait and generators (constructive; classes are reported to the caller).

use crate::common::Src;
use ndarray_interp::interp1d::cubic_spline::SplineNum;
use std::fmt::{Debug, Display};

pub trait Flt:
    SplineNum + num_traits::Float + Debug + Display + Send + Sync + Default + 'static
{
    const NAME: &'static str;
    /// unit roundoff
    const U: f64;
    const MANT: u32;
    /// exponent window for generated magnitudes (see DESIGN 3.3)
    const EWIN: i32;
    /// absolute slack for underflow: 16 x the smallest positive subnormal (each operation that
    /// underflows errs by at most half of it)
    const TINY: f64;
    fn of(v: f64) -> Self;
    fn f(self) -> f64;
    fn key(self) -> u64;
    fn from_key(k: u64) -> Self;
    fn up(self) -> Self;
    fn down(self) -> Self;
}

impl Flt for f64 {
    const NAME: &'static str = "f64";
    const U: f64 = 1.1102230246251565e-16;
    const MANT: u32 = 53;
    const EWIN: i32 = 60;
    const TINY: f64 = 7.9e-323;
    fn of(v: f64) -> Self {
        v
    }
    fn f(self) -> f64 {
        self
    }
    fn key(self) -> u64 {
        self.to_bits()
    }
    fn from_key(k: u64) -> Self {
        f64::from_bits(k)
    }
    fn up(self) -> Self {
        self.next_up()
    }
    fn down(self) -> Self {
        self.next_down()
    }
}

impl Flt for f32 {
    const NAME: &'static str = "f32";
    const U: f64 = 5.960464477539063e-8;
    const MANT: u32 = 24;
    const EWIN: i32 = 12;
    const TINY: f64 = 2.25e-44;
    fn of(v: f64) -> Self {
        v as f32
    }
    fn f(self) -> f64 {
        self as f64
    }
    fn key(self) -> u64 {
        self.to_bits() as u64
    }
    fn from_key(k: u64) -> Self {
        f32::from_bits(k as u32)
    }
    fn up(self) -> Self {
        self.next_up()
    }
    fn down(self) -> Self {
        self.next_down()
    }
}

/// `m * 2^e` with an integer mantissa of at most `mbits` bits, exactly representable when
/// mbits <= T::MANT and the exponent stays in the normal range.
pub fn dyadic(src: &mut Src, mbits: u32, emin: i32, emax: i32) -> f64 {
    let m = src.below(1u64 << mbits.min(62)) as f64;
    let e = src.int_in(emin as i64, emax as i64) as i32;
    m * 2f64.powi(e)
}

#[derive(Clone, Copy, Debug, PartialEq, Eq)]
pub enum ValClass {
    SmallInt,
    Dyadic,
    Full,
}

/// One data value. `scale_e`: binary exponent of the magnitude scale.
pub fn value<T: Flt>(src: &mut Src, class: ValClass, scale_e: i32) -> f64 {
    let neg = src.bool();
    let v = match class {
        ValClass::SmallInt => src.below(17) as f64,
        ValClass::Dyadic => {
            // up to 12 significant bits, a few binades
            let m = src.below(1 << 12) as f64;
            let e = src.int_in(-8, 2) as i32;
            m * 2f64.powi(e + scale_e)
        }
        ValClass::Full => {
            let mant = 1.0 + src.unit();
            let e = src.int_in(-6, 6) as i32;
            T::of(mant * 2f64.powi(e + scale_e)).f()
        }
    };
    let v = T::of(v).f();
    if neg {
        -v
    } else {
        v
    }
}

/// A vector of data values with zeros / flat runs / sign changes mixed in.
pub fn values<T: Flt>(src: &mut Src, n: usize, class: ValClass, scale_e: i32) -> Vec<f64> {
    let mut out = Vec::with_capacity(n);
    for i in 0..n {
        let r = src.below(16);
        let v = if r == 15 {
            0.0
        } else if r == 14 && i > 0 {
            out[i - 1]
        } else {
            value::<T>(src, class, scale_e)
        };
        out.push(v);
    }
    out
}

pub fn val_class(src: &mut Src) -> ValClass {
    match src.weighted(&[2, 3, 4]) {
        0 => ValClass::SmallInt,
        1 => ValClass::Dyadic,
        _ => ValClass::Full,
    }
}

#[derive(Clone, Copy, Debug, PartialEq, Eq)]
pub enum AxisClass {
    /// the builder's default index axis (no `.x()` call)
    Index,
    Unit,
    Uniform,
    Geometric,
    Clustered,
    Random,
    Dyadic,
    /// explicit non-uniform axis whose ends are exactly 0 and n-1 (looks like the index axis at both ends)
    Anchored,
    /// almost uniform: uniform spacing with a relative jitter of 2^-16 .. 2^-36 per knot (an even f32
    /// axis widened to f64, time stamps with small jitter, values parsed from 7-digit text)
    Jittered,
    /// non-uniform but mirror-symmetric about its centre (first and last intervals bit-equal, ...)
    Symmetric,
}

impl AxisClass {
    pub fn name(self) -> &'static str {
        match self {
            AxisClass::Index => "index",
            AxisClass::Unit => "unit",
            AxisClass::Uniform => "uniform",
            AxisClass::Geometric => "geometric",
            AxisClass::Clustered => "clustered",
            AxisClass::Random => "random",
            AxisClass::Dyadic => "dyadic",
            AxisClass::Anchored => "anchored",
            AxisClass::Jittered => "jittered",
            AxisClass::Symmetric => "symmetric",
        }
    }
    pub const ALL: [AxisClass; 10] = [
        AxisClass::Index,
        AxisClass::Unit,
        AxisClass::Uniform,
        AxisClass::Geometric,
        AxisClass::Clustered,
        AxisClass::Random,
        AxisClass::Dyadic,
        AxisClass::Anchored,
        AxisClass::Jittered,
        AxisClass::Symmetric,
    ];
}

/// Make `v` strictly increasing in T by construction (bump ties upward).
fn fix_increasing<T: Flt>(v: &mut [f64]) {
    for i in 0..v.len() {
        let mut x = T::of(v[i]);
        if i > 0 {
            let p = T::of(v[i - 1]);
            if !(x > p) {
                x = p.up();
            }
        }
        v[i] = x.f();
    }
}

/// Strictly increasing axis of n >= 2 knots, every value exactly representable in T.
/// `max_ratio_log2`: bound on log2(max h / min h) (None = unbounded) - clustered axes are
/// replaced by geometric ones when a bound is requested.
pub fn axis<T: Flt>(src: &mut Src, n: usize, class: AxisClass, max_ratio_log2: Option<u32>) -> Vec<f64> {
    assert!(n >= 1);
    let mut x = Vec::with_capacity(n);
    match class {
        AxisClass::Index => {
            for i in 0..n {
                x.push(i as f64);
            }
        }
        AxisClass::Unit => {
            let off = src.int_in(-20, 20) as f64;
            for i in 0..n {
                x.push(off + i as f64);
            }
        }
        AxisClass::Uniform => {
            let e = src.int_in(-(T::EWIN as i64) / 2, (T::EWIN as i64) / 2) as i32;
            let h = T::of((1.0 + src.unit()) * 2f64.powi(e)).f();
            let x0 = T::of((src.unit() * 16.0 - 8.0) * h).f();
            for i in 0..n {
                x.push(T::of(x0 + i as f64 * h).f());
            }
        }
        AxisClass::Geometric => {
            let r = 1.1 + src.unit() * 2.9;
            let e = src.int_in(-(T::EWIN as i64) / 2, 4) as i32;
            let mut h = (1.0 + src.unit()) * 2f64.powi(e);
            let h0 = h;
            let lim = max_ratio_log2.map(|b| 2f64.powi(b as i32 - 1));
            let mut cur = T::of((src.unit() - 0.5) * 4.0 * h).f();
            let up = src.bool();
            let mut hs = Vec::new();
            for _ in 0..n.saturating_sub(1) {
                hs.push(h);
                h *= r;
                if let Some(l) = lim {
                    if h / h0 > l {
                        h = h0;
                    }
                }
                if h > 2f64.powi(T::EWIN) {
                    h = h0;
                }
            }
            if !up {
                hs.reverse();
            }
            x.push(cur);
            for h in hs {
                cur = T::of(cur + h).f();
                x.push(cur);
            }
        }
        AxisClass::Clustered => {
            if max_ratio_log2.is_some() {
                return axis::<T>(src, n, AxisClass::Geometric, max_ratio_log2);
            }
            let e = src.int_in(-(T::EWIN as i64) / 2, (T::EWIN as i64) / 2) as i32;
            let mut cur = T::of((1.0 + src.unit()) * 2f64.powi(e) * if src.bool() { -1.0 } else { 1.0 });
            x.push(cur.f());
            while x.len() < n {
                if src.chance(3, 4) {
                    let k = 1 + src.below(4);
                    for _ in 0..k {
                        cur = cur.up();
                    }
                } else {
                    let gap = (src.unit() + 0.01) * cur.f().abs().max(2f64.powi(e)) * 2f64.powi(src.int_in(-20, 3) as i32);
                    let nx = T::of(cur.f() + gap);
                    cur = if nx > cur { nx } else { cur.up() };
                }
                x.push(cur.f());
            }
        }
        AxisClass::Random => {
            let e0 = src.int_in(-(T::EWIN as i64) / 2, (T::EWIN as i64) / 2) as i32;
            let spread = match max_ratio_log2 {
                Some(b) => (b as i64 - 1).max(0),
                None => 30.min(T::EWIN as i64),
            };
            let mut cur = T::of((src.unit() - 0.5) * 8.0 * 2f64.powi(e0)).f();
            x.push(cur);
            for _ in 1..n {
                let e = e0 + src.int_in(0, spread) as i32;
                // keep increments within [2^e, 2^(e+1)) so the mesh ratio bound holds
                let h = (1.0 + src.unit() * if max_ratio_log2.is_some() { 0.0 } else { 1.0 }) * 2f64.powi(e);
                let h = if max_ratio_log2.is_some() { (1.0 + src.unit() * 0.999) * 2f64.powi(e) } else { h };
                cur = T::of(cur + h).f();
                x.push(cur);
            }
        }
        AxisClass::Symmetric => {
            // dyadic steps mirrored about the centre: h[i] == h[n-2-i] exactly
            let g = src.int_in(-4, 8) as i32;
            let maxstep = match max_ratio_log2 {
                Some(b) => 1u64 << b.min(5),
                None => 32,
            };
            let m = n - 1;
            let mut steps = vec![0u64; m];
            for i in 0..m.div_ceil(2) {
                let s = 1 + src.below(maxstep);
                steps[i] = s;
                steps[m - 1 - i] = s;
            }
            let mut cur = src.int_in(-40, 40);
            x.push(cur as f64 * 2f64.powi(-g));
            for s in steps {
                cur += s as i64;
                x.push(cur as f64 * 2f64.powi(-g));
            }
        }
        AxisClass::Jittered => {
            let e = src.int_in(-(T::EWIN as i64) / 2, (T::EWIN as i64) / 2) as i32;
            let h = (1.0 + src.unit()) * 2f64.powi(e);
            let x0 = (src.unit() * 16.0 - 8.0) * h;
            let je = src.int_in(if T::MANT == 53 { -36 } else { -18 }, if T::MANT == 53 { -16 } else { -10 }) as i32;
            for i in 0..n {
                let eps = (src.unit() - 0.5) * 2f64.powi(je);
                x.push(x0 + (i as f64 + eps) * h);
            }
        }
        AxisClass::Anchored if n >= 4 && src.bool() => {
            // the index axis 0, 1, .., n-1 with one or two interior samples displaced (first step, last step and
            // most knots stay exactly on the index)
            for i in 0..n {
                x.push(i as f64);
            }
            for _ in 0..src.usize_in(1, 2) {
                let j = src.usize_in(1, n - 2);
                let d = src.pick(&[0.5, -0.5, 0.25, -0.25, 0.75, -0.75]);
                let v = j as f64 + d;
                if v > x[j - 1] && v < x[j + 1] {
                    x[j] = v;
                }
            }
        }
        AxisClass::Anchored => {
            // interior knots at random positions, then mapped affinely onto [0, n-1]
            let spread = match max_ratio_log2 {
                Some(b) => (b as i32 - 2).max(0),
                None => 8,
            };
            let mut cum = vec![0f64];
            for _ in 1..n {
                let h = (1.0 + src.unit() * 0.999) * 2f64.powi(src.int_in(0, spread as i64) as i32);
                cum.push(cum.last().unwrap() + h);
            }
            let total = *cum.last().unwrap();
            for c in &cum {
                x.push(if total > 0.0 { c / total * (n - 1) as f64 } else { 0.0 });
            }
            x[0] = 0.0;
            if n > 1 {
                x[n - 1] = (n - 1) as f64;
            }
        }
        AxisClass::Dyadic => {
            // integers * 2^-g with a small mantissa budget: all differences, midpoints and
            // quarter points are exactly representable
            let g = src.int_in(-6, 10) as i32;
            let maxstep = match max_ratio_log2 {
                Some(b) => 1u64 << b.min(6),
                None => 64,
            };
            let mut cur = src.int_in(-64, 64);
            x.push(cur as f64 * 2f64.powi(-g));
            for _ in 1..n {
                cur += 1 + src.below(maxstep) as i64;
                x.push(cur as f64 * 2f64.powi(-g));
            }
        }
    }
    // extreme absolute scales (exact power-of-two rescaling): code that compares against an absolute
    // epsilon, or against a fixed fraction of something, behaves differently there
    if matches!(class, AxisClass::Uniform | AxisClass::Geometric | AxisClass::Clustered | AxisClass::Random | AxisClass::Jittered) && x.iter().all(|v| v.is_finite()) && src.chance(1, 5) {
        let m = x.iter().fold(0f64, |a, v| a.max(v.abs())).max(f64::MIN_POSITIVE);
        let room = T::EWIN - 2;
        let cur = (m.log2().ceil() as i32).clamp(-1100, 1100);
        // k moves the largest magnitude to about 2^-room or 2^room
        let k = if src.bool() { -room - cur } else { room - cur };
        let k = k.clamp(-2 * T::EWIN, 2 * T::EWIN);
        let f = 2f64.powi(k / 2) * 2f64.powi(k - k / 2);
        if f.is_finite() && f > 0.0 {
            let scaled: Vec<f64> = x.iter().map(|v| v * f).collect();
            // keep only if every knot and every interval stays a normal number of T
            let tiny = if T::MANT == 53 { f64::MIN_POSITIVE * 1e20 } else { f32::MIN_POSITIVE as f64 * 1e8 };
            if scaled.iter().all(|v| v.is_finite() && T::of(*v).f() == *v) && scaled.windows(2).all(|w| w[1] - w[0] > tiny) {
                x = scaled;
            }
        }
    }
    fix_increasing::<T>(&mut x);
    // soundness of the generator itself: very long clustered / geometric axes can run out of the exponent range;
    // such an axis is replaced by the part that is still finite, continued with unit steps of its last magnitude
    if !x.iter().all(|v| v.is_finite()) || !x.windows(2).all(|w| w[0] < w[1]) {
        let good = x.iter().position(|v| !v.is_finite() || v.abs() > 2f64.powi(T::EWIN)).unwrap_or(0).min(x.len());
        if good < 2 {
            for (i, v) in x.iter_mut().enumerate() {
                *v = i as f64;
            }
        } else {
            let h = x[good - 1] - x[good - 2];
            for i in good..x.len() {
                x[i] = x[i - 1] + h;
            }
            fix_increasing::<T>(&mut x);
            if !x.iter().all(|v| v.is_finite()) || !x.windows(2).all(|w| w[0] < w[1]) {
                for (i, v) in x.iter_mut().enumerate() {
                    *v = i as f64;
                }
            }
        }
    }
    if class == AxisClass::Anchored && n >= 2 && x[n - 1] != (n - 1) as f64 {
        // rounding collided near the end: fall back to the plain index positions
        for (i, v) in x.iter_mut().enumerate() {
            *v = i as f64;
        }
    }
    // a knot at zero carries the negative sign in 1 of 4 axes that have one (-0.0 == 0.0, the order is unaffected)
    if class != AxisClass::Index {
        if let Some(z) = x.iter().position(|v| *v == 0.0) {
            if src.chance(1, 4) {
                x[z] = -0.0;
            }
        }
    }
    if let Some(b) = max_ratio_log2 {
        // enforce the bound after rounding; fall back to a uniform dyadic axis if violated
        let hs: Vec<f64> = x.windows(2).map(|w| w[1] - w[0]).collect();
        let (mn, mx) = hs.iter().fold((f64::MAX, 0f64), |(a, c), &h| (a.min(h), c.max(h)));
        if !(mx / mn <= 2f64.powi(b as i32)) {
            for (i, v) in x.iter_mut().enumerate() {
                *v = i as f64;
            }
        }
    }
    x
}

pub fn axis_class(src: &mut Src) -> AxisClass {
    AxisClass::ALL[src.weighted(&[2, 2, 3, 3, 3, 4, 3, 2, 2, 2])]
}

pub fn is_uniform(x: &[f64]) -> bool {
    let h = x[1] - x[0];
    x.windows(2).all(|w| w[1] - w[0] == h)
}

/// In-range query classes for a 1-D axis.
#[derive(Clone, Copy, Debug, PartialEq, Eq)]
pub enum QClass {
    Knot,
    KnotUp,
    KnotDown,
    First,
    Last,
    Mid,
    Quarter,
    Random,
    /// a point of the even grid spanned by the axis ends: x0 + j (xn - x0)/(n-1)
    EvenGrid,
}

impl QClass {
    pub fn name(self) -> &'static str {
        match self {
            QClass::Knot => "q:knot",
            QClass::KnotUp => "q:knot+ulp",
            QClass::KnotDown => "q:knot-ulp",
            QClass::First => "q:first",
            QClass::Last => "q:last",
            QClass::Mid => "q:mid",
            QClass::Quarter => "q:quarter",
            QClass::Random => "q:random",
            QClass::EvenGrid => "q:even-grid",
        }
    }
}

/// One in-range query (always inside [x0, xn], exactly representable in T).
/// A batch that looks like the axis: exactly n points, q[i] == x[i] except at a random subset of positions, which hold
/// other in-range points; first / middle / last position keep the knot in half of the cases each.
pub fn axis_like_batch<T: Flt>(src: &mut Src, x: &[f64]) -> Vec<(f64, QClass)> {
    let n = x.len();
    let dense = src.bool();
    let keep = [src.bool(), src.bool(), src.bool()];
    let mut out: Vec<(f64, QClass)> = x.iter().map(|&v| (v, QClass::Knot)).collect();
    for i in 0..n {
        let pinned = (i == 0 && keep[0]) || (i == n / 2 && keep[1]) || (i == n - 1 && keep[2]);
        if !pinned && src.chance(1, if dense { 2 } else { 4 }) {
            out[i] = query_in_range::<T>(src, x);
        }
    }
    out
}

pub fn query_in_range<T: Flt>(src: &mut Src, x: &[f64]) -> (f64, QClass) {
    let n = x.len();
    let class = match src.weighted(&[3, 2, 2, 1, 1, 2, 2, 4, 2]) {
        0 => QClass::Knot,
        1 => QClass::KnotUp,
        2 => QClass::KnotDown,
        3 => QClass::First,
        4 => QClass::Last,
        5 => QClass::Mid,
        6 => QClass::Quarter,
        7 => QClass::Random,
        _ => QClass::EvenGrid,
    };
    let lo = T::of(x[0]);
    let hi = T::of(x[n - 1]);
    let clamp = |v: T| -> f64 {
        let v = if v < lo { lo } else { v };
        let v = if v > hi { hi } else { v };
        v.f()
    };
    let q = match class {
        QClass::Knot => {
            let k = x[src.below(n as u64) as usize];
            // a knot at zero is also asked for with the other sign of zero
            if k == 0.0 && src.bool() {
                -k
            } else {
                k
            }
        }
        QClass::KnotUp => clamp(T::of(x[src.below(n as u64) as usize]).up()),
        QClass::KnotDown => clamp(T::of(x[src.below(n as u64) as usize]).down()),
        QClass::First => x[0],
        QClass::Last => x[n - 1],
        QClass::Mid => {
            let i = src.below(n as u64 - 1) as usize;
            clamp(T::of(x[i] + (x[i + 1] - x[i]) * 0.5))
        }
        QClass::Quarter => {
            let i = src.below(n as u64 - 1) as usize;
            let k = src.pick(&[0.25, 0.75]);
            clamp(T::of(x[i] + (x[i + 1] - x[i]) * k))
        }
        QClass::Random => {
            let i = src.below(n as u64 - 1) as usize;
            clamp(T::of(x[i] + (x[i + 1] - x[i]) * src.unit()))
        }
        QClass::EvenGrid => {
            let j = src.below(n as u64) as f64;
            clamp(T::of(x[0] + j * ((x[n - 1] - x[0]) / (n - 1) as f64)))
        }
    };
    (q, class)
}

/// trailing shape: 0..=max_axes axes with lengths from `lens`
/// entropy for bulky parts of a case (long axes, wide data): expanded from ONE drawn word, so that the draws behind
/// it are not starved; a pure function of the drawn word (replays do not depend on the run seed)
pub fn expand(src: &mut Src, len: usize) -> Vec<u64> {
    let mut h = crate::common::splitmix(src.next() ^ 0x5EED_B16C_A5E5);
    (0..len)
        .map(|_| {
            h = crate::common::splitmix(h);
            h
        })
        .collect()
}

/// trailing shape with many lanes (32..96): thresholds of vectorised / unrolled / chunked row processing
pub fn wide_trailing(src: &mut Src, max_axes: usize) -> Vec<usize> {
    match src.below(if max_axes >= 3 { 4 } else if max_axes >= 2 { 3 } else { 1 }) {
        0 => vec![src.usize_in(32, 96)],
        1 => vec![src.usize_in(4, 8), src.usize_in(8, 12)],
        2 => vec![src.usize_in(33, 70), 1],
        _ => vec![src.usize_in(2, 4), src.usize_in(4, 6), src.usize_in(4, 5)],
    }
}

pub fn trailing_shape(src: &mut Src, max_axes: usize, lens: &[usize]) -> Vec<usize> {
    let k = src.usize_in(0, max_axes);
    (0..k).map(|_| src.pick(lens)).collect()
}

pub fn product(shape: &[usize]) -> usize {
    shape.iter().product()
}

/// Binary exponent scale for data values.
pub fn scale_exp<T: Flt>(src: &mut Src) -> i32 {
    match src.weighted(&[4, 2, 1]) {
        0 => 0,
        1 => src.int_in(-10, 10) as i32,
        _ => {
            let w = (T::EWIN as i64 - 8).max(2);
            src.int_in(-w, w) as i32
        }
    }
}
