//! Reference models in exact arithmetic.
//!
//! The spline oracle deliberately uses a different formulation than the crate: it solves for
//! the knot *second derivatives* (moments) by Gaussian elimination with pivoting, the crate
//! solves for knot slopes with the Thomas algorithm. Every solution is certified in exact
//! arithmetic before use (interpolation, C1 at interior knots, end conditions: residual 0).

use crate::exact::Rat;

#[derive(Clone, Debug, PartialEq)]
pub enum End {
    NotAKnot,
    First(Rat),
    Second(Rat),
}

#[derive(Clone, Debug, PartialEq)]
pub enum Bounds {
    Ends(End, End),
    Periodic,
}

#[derive(Clone, Debug)]
pub struct Spline {
    pub x: Vec<Rat>,
    pub y: Vec<Rat>,
    pub h: Vec<Rat>,
    /// second derivatives at the knots
    pub m: Vec<Rat>,
    /// slopes S'(x_i) at the knots
    pub k: Vec<Rat>,
    pub bounds: Bounds,
    /// cached local coefficients of every piece
    pub c: Vec<[Rat; 4]>,
    ymax: f64,
    kmax: f64,
}

/// Gaussian elimination with (first non-zero) pivoting and zero skipping. None = singular.
pub fn solve_linear(mut a: Vec<Vec<Rat>>, mut b: Vec<Rat>) -> Option<Vec<Rat>> {
    let n = b.len();
    for c in 0..n {
        // pivot: non-zero entry with the fewest bits (keeps numbers small)
        let mut p = None;
        let mut best = usize::MAX;
        for r in c..n {
            if !a[r][c].is_zero() {
                let bits = a[r][c].bits();
                if bits < best {
                    best = bits;
                    p = Some(r);
                }
            }
        }
        let p = p?;
        a.swap(c, p);
        b.swap(c, p);
        let piv = a[c][c].clone();
        for r in c + 1..n {
            if a[r][c].is_zero() {
                continue;
            }
            let f = a[r][c].div(&piv);
            for cc in c..n {
                if a[c][cc].is_zero() {
                    continue;
                }
                let t = f.mul(&a[c][cc]);
                a[r][cc] = a[r][cc].sub(&t);
            }
            b[r] = b[r].sub(&f.mul(&b[c]));
        }
    }
    let mut xs = vec![Rat::zero(); n];
    for r in (0..n).rev() {
        let mut s = b[r].clone();
        for c in r + 1..n {
            if !a[r][c].is_zero() && !xs[c].is_zero() {
                s = s.sub(&a[r][c].mul(&xs[c]));
            }
        }
        xs[r] = s.div(&a[r][r]);
    }
    Some(xs)
}

impl Spline {
    /// Exact spline through (x, y) with the given end conditions. Err = oracle problem
    /// (singular system or failed certificate), never a verdict about the implementation.
    pub fn solve(xf: &[f64], yf: &[f64], bounds: &Bounds) -> Result<Spline, String> {
        let n = xf.len();
        if n < 3 || yf.len() != n {
            return Err(format!("spline oracle needs n >= 3 (n = {n})"));
        }
        let x: Vec<Rat> = xf.iter().map(|&v| Rat::from_f64(v)).collect();
        let y: Vec<Rat> = yf.iter().map(|&v| Rat::from_f64(v)).collect();
        let h: Vec<Rat> = (0..n - 1).map(|i| x[i + 1].sub(&x[i])).collect();
        let d: Vec<Rat> = (0..n - 1).map(|i| y[i + 1].sub(&y[i]).div(&h[i])).collect(); // secant slopes
        let six = Rat::from_i64(6);
        let two = Rat::from_i64(2);
        let zero = Rat::zero();

        let m: Vec<Rat> = match bounds {
            Bounds::Ends(End::NotAKnot, End::NotAKnot) if n == 3 => {
                // the parabola through the three points: constant second derivative
                let dd = d[1].sub(&d[0]).div(&x[2].sub(&x[0]));
                let mm = dd.mul(&two);
                vec![mm.clone(), mm.clone(), mm]
            }
            Bounds::Ends(left, right) => {
                let mut a = vec![vec![zero.clone(); n]; n];
                let mut b = vec![zero.clone(); n];
                for i in 1..n - 1 {
                    a[i][i - 1] = h[i - 1].clone();
                    a[i][i] = two.mul(&h[i - 1].add(&h[i]));
                    a[i][i + 1] = h[i].clone();
                    b[i] = six.mul(&d[i].sub(&d[i - 1]));
                }
                match left {
                    End::Second(v) => {
                        a[0][0] = Rat::one();
                        b[0] = v.clone();
                    }
                    End::First(v) => {
                        a[0][0] = two.mul(&h[0]);
                        a[0][1] = h[0].clone();
                        b[0] = six.mul(&d[0].sub(v));
                    }
                    End::NotAKnot => {
                        a[0][0] = h[1].clone();
                        a[0][1] = h[0].add(&h[1]).neg();
                        a[0][2] = h[0].clone();
                    }
                }
                match right {
                    End::Second(v) => {
                        a[n - 1][n - 1] = Rat::one();
                        b[n - 1] = v.clone();
                    }
                    End::First(v) => {
                        a[n - 1][n - 2] = h[n - 2].clone();
                        a[n - 1][n - 1] = two.mul(&h[n - 2]);
                        b[n - 1] = six.mul(&v.sub(&d[n - 2]));
                    }
                    End::NotAKnot => {
                        a[n - 1][n - 3] = h[n - 2].clone();
                        a[n - 1][n - 2] = h[n - 3].add(&h[n - 2]).neg();
                        a[n - 1][n - 1] = h[n - 3].clone();
                    }
                }
                solve_linear(a, b).ok_or_else(|| "singular spline system".to_string())?
            }
            Bounds::Periodic => {
                if y[0] != y[n - 1] {
                    return Err("periodic oracle: first and last value differ".into());
                }
                // unknowns M_0 .. M_{n-2}; M_{n-1} = M_0
                let u = n - 1;
                let mut a = vec![vec![zero.clone(); u]; u];
                let mut b = vec![zero.clone(); u];
                for i in 0..u {
                    let hl = if i == 0 { &h[n - 2] } else { &h[i - 1] };
                    let hr = &h[i];
                    let dl = if i == 0 { &d[n - 2] } else { &d[i - 1] };
                    let il = if i == 0 { u - 1 } else { i - 1 };
                    let ir = if i == u - 1 { 0 } else { i + 1 };
                    a[i][il] = a[i][il].add(hl);
                    a[i][i] = a[i][i].add(&two.mul(&hl.add(hr)));
                    a[i][ir] = a[i][ir].add(hr);
                    b[i] = six.mul(&d[i].sub(dl));
                }
                let mut m = solve_linear(a, b).ok_or_else(|| "singular periodic system".to_string())?;
                let m0 = m[0].clone();
                m.push(m0);
                m
            }
        };
        // slopes
        let mut k = Vec::with_capacity(n);
        for i in 0..n - 1 {
            k.push(d[i].sub(&h[i].mul(&two.mul(&m[i]).add(&m[i + 1])).div(&six)));
        }
        k.push(d[n - 2].add(&h[n - 2].mul(&m[n - 2].add(&two.mul(&m[n - 1]))).div(&six)));
        let c: Vec<[Rat; 4]> = (0..n - 1)
            .map(|i| [y[i].clone(), k[i].clone(), m[i].div_i(2), m[i + 1].sub(&m[i]).div(&h[i].mul_i(6))])
            .collect();
        let ymax = y.iter().map(|v| v.abs_upper_f64()).fold(0.0, f64::max);
        let kmax = k.iter().map(|v| v.abs_upper_f64()).fold(0.0, f64::max);
        let s = Spline { x, y, h, m, k, bounds: bounds.clone(), c, ymax, kmax };
        s.certify()?;
        Ok(s)
    }

    /// piece i as local coefficients in (q - x_i): [y_i, b_i, M_i/2, (M_{i+1}-M_i)/(6 h_i)]
    pub fn coeffs(&self, i: usize) -> &[Rat; 4] {
        &self.c[i]
    }
    pub fn eval(&self, i: usize, q: &Rat) -> Rat {
        let c = self.coeffs(i);
        let t = q.sub(&self.x[i]);
        c[3].mul(&t).add(&c[2]).mul(&t).add(&c[1]).mul(&t).add(&c[0])
    }
    pub fn d1(&self, i: usize, q: &Rat) -> Rat {
        let c = self.coeffs(i);
        let t = q.sub(&self.x[i]);
        c[3].mul_i(3).mul(&t).add(&c[2].mul_i(2)).mul(&t).add(&c[1])
    }
    pub fn d2(&self, i: usize, q: &Rat) -> Rat {
        let c = self.coeffs(i);
        let t = q.sub(&self.x[i]);
        c[3].mul_i(6).mul(&t).add(&c[2].mul_i(2))
    }
    pub fn d3(&self, i: usize) -> Rat {
        self.c[i][3].mul_i(6)
    }
    pub fn n(&self) -> usize {
        self.x.len()
    }

    fn certify(&self) -> Result<(), String> {
        let n = self.n();
        for i in 0..n - 1 {
            if self.eval(i, &self.x[i + 1]) != self.y[i + 1] {
                return Err(format!("certificate: piece {i} misses its right knot"));
            }
            if self.d1(i, &self.x[i + 1]) != self.k[i + 1] {
                return Err(format!("certificate: S' discontinuous at knot {}", i + 1));
            }
            if self.d2(i, &self.x[i + 1]) != self.m[i + 1] {
                return Err(format!("certificate: S'' discontinuous at knot {}", i + 1));
            }
        }
        match &self.bounds {
            Bounds::Periodic => {
                if self.k[0] != self.k[n - 1] || self.m[0] != self.m[n - 1] {
                    return Err("certificate: periodic end conditions".into());
                }
            }
            Bounds::Ends(l, r) => {
                match l {
                    End::First(v) => {
                        if &self.k[0] != v {
                            return Err("certificate: left first derivative".into());
                        }
                    }
                    End::Second(v) => {
                        if &self.m[0] != v {
                            return Err("certificate: left second derivative".into());
                        }
                    }
                    End::NotAKnot => {
                        if self.d3(0) != self.d3(1) {
                            return Err("certificate: left not-a-knot".into());
                        }
                    }
                }
                match r {
                    End::First(v) => {
                        if &self.k[n - 1] != v {
                            return Err("certificate: right first derivative".into());
                        }
                    }
                    End::Second(v) => {
                        if &self.m[n - 1] != v {
                            return Err("certificate: right second derivative".into());
                        }
                    }
                    End::NotAKnot => {
                        if self.d3(n - 2) != self.d3(n - 3) {
                            return Err("certificate: right not-a-knot".into());
                        }
                    }
                }
            }
        }
        Ok(())
    }

    /// max_j |y_j| as f64 (upper bound)
    pub fn ymax(&self) -> f64 {
        self.ymax
    }
    /// max_j |k_j| as f64 (upper bound)
    pub fn kmax(&self) -> f64 {
        self.kmax
    }
    /// scale of interval i: max|y| + h_i max|k| (DESIGN 3.4)
    pub fn sigma(&self, i: usize) -> f64 {
        self.ymax() + self.h[i].abs_upper_f64() * self.kmax()
    }
}

/// growth factor of the Hermite form at local parameter t (1 <= g <= 1.25 for t in [0,1])
pub fn growth(t: f64) -> f64 {
    let a = (1.0 - t).abs();
    let b = t.abs();
    a + b + (t * (1.0 - t)).abs() * (a + b)
}
