//! Compile-time part of C17: interpolators over thread-safe storage are Send and Sync.
//! This crate contains nothing but the assertions; if it stops compiling while the crate
//! under test itself compiles, run.sh reports a C17 violation with the build log as replay.

use ndarray::{Ix1, Ix2, Ix3, IxDyn, OwnedArcRepr, OwnedRepr, ViewRepr};
use ndarray_interp::interp1d::cubic_spline::CubicSplineStrategy;
use ndarray_interp::interp1d::{Interp1D, Linear};
use ndarray_interp::interp2d::{Bilinear, Interp2D};

fn ss<X: Send + Sync>() {}

macro_rules! one_d {
    ($E:ty, $D:ty) => {
        ss::<Interp1D<OwnedRepr<$E>, OwnedRepr<$E>, $D, Linear>>();
        ss::<Interp1D<ViewRepr<&'static $E>, ViewRepr<&'static $E>, $D, Linear>>();
        ss::<Interp1D<OwnedArcRepr<$E>, OwnedArcRepr<$E>, $D, Linear>>();
        ss::<Interp1D<ViewRepr<&'static $E>, OwnedRepr<$E>, $D, Linear>>();
    };
}
macro_rules! spline {
    ($E:ty, $D:ty) => {
        ss::<Interp1D<OwnedRepr<$E>, OwnedRepr<$E>, $D, CubicSplineStrategy<OwnedRepr<$E>, $D>>>();
        ss::<Interp1D<ViewRepr<&'static $E>, ViewRepr<&'static $E>, $D, CubicSplineStrategy<ViewRepr<&'static $E>, $D>>>();
        ss::<Interp1D<OwnedArcRepr<$E>, OwnedArcRepr<$E>, $D, CubicSplineStrategy<OwnedArcRepr<$E>, $D>>>();
    };
}
macro_rules! two_d {
    ($E:ty, $D:ty) => {
        ss::<Interp2D<OwnedRepr<$E>, OwnedRepr<$E>, OwnedRepr<$E>, $D, Bilinear>>();
        ss::<Interp2D<ViewRepr<&'static $E>, ViewRepr<&'static $E>, ViewRepr<&'static $E>, $D, Bilinear>>();
        ss::<Interp2D<OwnedArcRepr<$E>, OwnedArcRepr<$E>, OwnedArcRepr<$E>, $D, Bilinear>>();
    };
}

fn main() {
    one_d!(f64, Ix1);
    one_d!(f64, Ix2);
    one_d!(f64, IxDyn);
    one_d!(f32, Ix3);
    one_d!(i32, Ix1);
    one_d!(i64, IxDyn);
    spline!(f64, Ix1);
    spline!(f64, Ix2);
    spline!(f32, IxDyn);
    two_d!(f64, Ix2);
    two_d!(f64, Ix3);
    two_d!(f32, IxDyn);
    two_d!(i32, Ix2);
    println!("static_c17: 46 Send + Sync assertions compiled");
}
