//! C19 - the unchecked type cast of the 1-D fast path only ever relabels identical types.
//! Separate binary: the instantiation matrix is expensive to compile and is kept out of the
//! main harness so that it builds in parallel and does not slow the other checks.

#[path = "../../src/common.rs"]
mod common;
#[path = "../../src/cli.rs"]
mod cli;

use common::*;
use ndarray::{Array1, ArrayD, Dimension, Ix0, Ix1, Ix2, Ix3, Ix4, Ix5, Ix6, IxDyn};
use ndarray_interp::interp1d::cubic_spline::CubicSpline;
use ndarray_interp::interp1d::{Interp1DBuilder, Linear};
use ndarray_interp::interp2d::{Bilinear, Interp2DBuilder};
use ndarray_interp::verif_hooks::{cast_count, mismatch_count};
use serde_json::json;
use std::fmt::Debug;

pub trait Elem: num_traits::Num + PartialOrd + num_traits::NumCast + Copy + Debug + std::ops::Sub + Send + Sync + 'static {
    const NAME: &'static str;
    const FLOAT: bool;
    fn bits(self) -> u64;
    fn from_i(v: i64) -> Self;
    /// a value between a and b (ints: one of them)
    fn between(a: Self, b: Self, t: f64) -> Self;
    /// -0.0 for floats, 0 for integers
    fn neg_zero() -> Self;
}
macro_rules! elem_f {
    ($t:ty, $n:expr) => {
        impl Elem for $t {
            const NAME: &'static str = $n;
            const FLOAT: bool = true;
            fn bits(self) -> u64 {
                self.to_bits() as u64
            }
            fn from_i(v: i64) -> Self {
                v as $t
            }
            fn between(a: Self, b: Self, t: f64) -> Self {
                let v = a + (b - a) * (t as $t);
                if v < a { a } else if v > b { b } else { v }
            }
            fn neg_zero() -> Self {
                -0.0
            }
        }
    };
}
macro_rules! elem_i {
    ($t:ty, $n:expr) => {
        impl Elem for $t {
            const NAME: &'static str = $n;
            const FLOAT: bool = false;
            fn bits(self) -> u64 {
                self as i64 as u64
            }
            fn from_i(v: i64) -> Self {
                v as $t
            }
            fn between(a: Self, b: Self, t: f64) -> Self {
                a + (((b - a) as f64) * t) as $t
            }
            fn neg_zero() -> Self {
                0
            }
        }
    };
}
elem_f!(f64, "f64");
elem_f!(f32, "f32");
elem_i!(i32, "i32");
elem_i!(i64, "i64");

#[derive(Clone, Copy, PartialEq)]
enum Kind {
    Linear,
    Spline,
    Bilinear,
}

struct Setup<E> {
    shape: Vec<usize>,
    x: Vec<E>,
    y: Vec<E>,
    data: Vec<E>,
    /// in-range query values
    qx: Vec<E>,
    qy: Vec<E>,
}

fn setup<E: Elem>(src: &mut Src, rank: usize, kind: Kind) -> Setup<E> {
    let k = if kind == Kind::Bilinear { 2 } else { 1 };
    let nx = src.usize_in(if kind == Kind::Spline { 3 } else { 2 }, 6);
    let ny = src.usize_in(2, 5);
    let mut shape = vec![nx];
    if k == 2 {
        shape.push(ny);
    }
    for _ in k..rank {
        shape.push(src.usize_in(1, 3));
    }
    let mk_axis = |src: &mut Src, n: usize| -> Vec<E> {
        let mut cur = src.int_in(-20, 20);
        (0..n)
            .map(|_| {
                let v = cur;
                cur += 1 + src.below(5) as i64;
                E::from_i(v)
            })
            .collect()
    };
    let x = mk_axis(src, nx);
    let y = mk_axis(src, ny);
    let total: usize = shape.iter().product();
    let data: Vec<E> = (0..total).map(|_| E::from_i(src.int_in(-50, 50))).collect();
    let nq = 6;
    let mut x = x;
    let mut data = data;
    let mut qx: Vec<E> = (0..nq).map(|_| E::between(x[0], x[nx - 1], src.unit())).collect();
    let qy = (0..nq).map(|_| E::between(y[0], y[ny - 1], src.unit())).collect();
    // 1 of 4: a knot at zero that carries -0.0 data on a rising segment, asked for with +0.0, -0.0, +0.0 in adjacent batch
    // positions (equal queries whose results differ in the sign bit)
    if src.chance(1, 4) {
        let z = src.below(nx as u64 - 1) as usize;
        let off = x[z];
        for v in x.iter_mut() {
            *v = *v - off;
        }
        let row: usize = shape[1..].iter().product();
        for l in 0..row {
            data[z * row + l] = E::neg_zero();
            data[(z + 1) * row + l] = E::from_i(3 + l as i64);
        }
        qx = (0..nq).map(|_| E::between(x[0], x[nx - 1], src.unit())).collect();
        qx[0] = E::from_i(0);
        qx[1] = E::neg_zero();
        qx[2] = E::from_i(0);
        qx[3] = E::neg_zero();
    }
    Setup { shape, x, y, data, qx, qy }
}

/// query shapes per query dim type (all with 6 or fewer elements, rank as required)
fn qshape_for(rank: usize) -> Vec<usize> {
    match rank {
        0 => vec![],
        1 => vec![5],
        2 => vec![2, 3],
        _ => vec![1, 2, 3],
    }
}

macro_rules! query_loop {
    ($interp:expr, $s:expr, $two:tt, $obs:expr, $ctx:expr) => {{
        let interp = &$interp;
        let s = &$s;
        // (name, static rank or None for dynamic rank 1)
        macro_rules! one {
            ($Dq:ty, $qn:expr, $qrank:expr, $fast:expr) => {{
                let qs = qshape_for($qrank);
                let len: usize = qs.iter().product();
                let xa = ArrayD::from_shape_vec(IxDyn(&qs), s.qx[..len].to_vec()).unwrap().into_dimensionality::<$Dq>().unwrap();
                let ya = ArrayD::from_shape_vec(IxDyn(&qs), s.qy[..len].to_vec()).unwrap().into_dimensionality::<$Dq>().unwrap();
                let xd = xa.clone().into_dyn();
                let yd = ya.clone().into_dyn();
                let before = (cast_count(), mismatch_count());
                let r = catch(|| callq!($two, interp, &xa, &ya));
                let after = (cast_count(), mismatch_count());
                $obs.asserts += 3;
                let r = match r {
                    Err(p) => return Err(Fail::new(format!("cast-panic/{}", $qn), format!("{}: query {} -> panic: {p}", $ctx, $qn))),
                    Ok(Err(e)) => return Err(Fail::new("in-range-rejected", format!("{}: query {}: {e}", $ctx, $qn))),
                    Ok(Ok(a)) => a,
                };
                if after.1 != before.1 {
                    return Err(Fail::new(format!("cast-mismatch/{}", $qn), format!("{}: query {}: cast_unchecked between different types", $ctx, $qn)));
                }
                let want: u64 = if $fast { ncasts!($two) } else { 0 };
                if after.0 - before.0 != want {
                    return Err(Fail::new(
                        format!("cast-count/{}/{}", $qn, if $fast { "fast-path-not-taken" } else { "fast-path-taken-for-other-type" }),
                        format!("{}: query dim {}: {} unchecked casts performed, expected {want} (the specialised path must be taken exactly for statically 1-D queries)", $ctx, $qn, after.0 - before.0),
                    ));
                }
                // general per-element path: the same query with a dynamic dimension type
                let g = catch(|| callq!($two, interp, &xd, &yd));
                let g = match g {
                    Ok(Ok(a)) => a,
                    other => return Err(Fail::new("general-path-failed", format!("{}: dynamic query failed: {:?}", $ctx, other.map(|r| r.map(|_| ()))))),
                };
                if r.shape() != g.shape() || r.iter().map(|v| v.bits()).ne(g.iter().map(|v| v.bits())) {
                    return Err(Fail::new(format!("fast-vs-general/{}", $qn), format!("{}: query {}: fast path and per-element path disagree: {:?} vs {:?}", $ctx, $qn, r.iter().take(4).collect::<Vec<_>>(), g.iter().take(4).collect::<Vec<_>>())));
                }
            }};
        }
        one!(Ix0, "Ix0", 0, false);
        one!(Ix1, "Ix1", 1, true);
        // the query that equals the interpolator's own axis (evaluation at the knots): fast path vs general path
        {
            let xa = Array1::from_vec(s.x.clone());
            let ya = Array1::from_iter((0..s.x.len()).map(|k| s.y[k % s.y.len()]));
            let (xd, yd) = (xa.clone().into_dyn(), ya.clone().into_dyn());
            let f = catch(|| callq!($two, interp, &xa, &ya));
            let g = catch(|| callq!($two, interp, &xd, &yd));
            $obs.asserts += 1;
            match (f, g) {
                (Ok(Ok(f)), Ok(Ok(g))) => {
                    if f.shape() != g.shape() || f.iter().map(|v| v.bits()).ne(g.iter().map(|v| v.bits())) {
                        return Err(Fail::new("fast-vs-general/query-equals-axis", format!("{}: query equal to the x axis: fast path {:?} vs per-element path {:?}", $ctx, f.iter().take(6).collect::<Vec<_>>(), g.iter().take(6).collect::<Vec<_>>())));
                    }
                }
                (f, g) => return Err(Fail::new("fast-vs-general/query-equals-axis", format!("{}: query equal to the x axis: outcomes differ or fail: {:?} / {:?}", $ctx, f.map(|r| r.map(|_| ())), g.map(|r| r.map(|_| ()))))),
            }
        }
        // xs and ys in different storage kinds (owned / view / shared): the fast path must still only relabel identical types
        mixed_storage!($two, interp, s, $obs, $ctx);
        // wrongly shaped buffers (leading length off by one, trailing shape right): the fast path must reject what the
        // per-element path rejects
        {
            let len = qshape_for(1)[0];
            let xa = Array1::from_vec(s.qx[..len].to_vec());
            let ya = Array1::from_vec(s.qy[..len].to_vec());
            let (xd, yd) = (xa.clone().into_dyn(), ya.clone().into_dyn());
            if let Ok(Ok(good)) = catch(|| callq_typed!($two, interp, &xa, &ya)) {
                for delta in [1isize, -1] {
                    let mut dim = good.raw_dim();
                    if delta < 0 && dim[0] == 0 {
                        continue;
                    }
                    dim[0] = (dim[0] as isize + delta) as usize;
                    let fill = good.iter().next().cloned().unwrap_or(s.qx[0]);
                    let mut wrong = ndarray::Array::from_elem(dim, fill);
                    let mut wrong_d = wrong.clone().into_dyn();
                    let f = catch(|| callinto!($two, interp, &xa, &ya, wrong.view_mut()));
                    let g = catch(|| callinto!($two, interp, &xd, &yd, wrong_d.view_mut()));
                    let accepted = |r: &Result<Result<(), String>, String>| matches!(r, Ok(Ok(())));
                    $obs.asserts += 1;
                    $obs.class("wrong-leading-length-buffer");
                    if accepted(&f) != accepted(&g) {
                        return Err(Fail::new(
                            "fast-vs-general/wrong-buffer",
                            format!("{}: interp_array_into with {} query points and a buffer whose leading length is {}: fast path (Ix1 query) {:?}, per-element path (IxDyn query) {:?}", $ctx, len, (len as isize + delta), f, g),
                        ));
                    }
                }
            }
        }
        one!(Ix2, "Ix2", 2, false);
        one!(Ix3, "Ix3", 3, false);
        one!(IxDyn, "IxDyn(rank 1)", 1, false);
    }};
}

macro_rules! callq {
    (one, $i:expr, $x:expr, $y:expr) => {{
        let _ = $y;
        $i.interp_array($x).map(|a| a.into_dyn()).map_err(|e| e.to_string())
    }};
    (two, $i:expr, $x:expr, $y:expr) => {
        $i.interp_array($x, $y).map(|a| a.into_dyn()).map_err(|e| e.to_string())
    };
}
macro_rules! mixed_storage {
    (one, $interp:expr, $s:expr, $obs:expr, $ctx:expr) => {};
    (two, $interp:expr, $s:expr, $obs:expr, $ctx:expr) => {{
        let len = qshape_for(1)[0];
        let xa = Array1::from_vec($s.qx[..len].to_vec());
        let ya = Array1::from_vec($s.qy[..len].to_vec());
        let (xsh, ysh) = (xa.clone().into_shared(), ya.clone().into_shared());
        let general = catch(|| $interp.interp_array(&xa.clone().into_dyn(), &ya.clone().into_dyn()).map(|a| a.into_dyn()).map_err(|e| e.to_string()));
        macro_rules! pair {
            ($x:expr, $y:expr, $name:expr) => {{
                let before = (cast_count(), mismatch_count());
                let r = catch(|| $interp.interp_array($x, $y).map(|a| a.into_dyn()).map_err(|e| e.to_string()));
                let after = (cast_count(), mismatch_count());
                $obs.asserts += 2;
                $obs.class("mixed-query-storage");
                if after.1 != before.1 {
                    return Err(Fail::new(format!("cast-mismatch/mixed-storage/{}", $name), format!("{}: xs / ys as {}: cast_unchecked between different types", $ctx, $name)));
                }
                match (&r, &general) {
                    (Ok(Ok(a)), Ok(Ok(g))) if a.shape() == g.shape() && a.iter().map(|v| v.bits()).eq(g.iter().map(|v| v.bits())) => {}
                    _ => {
                        return Err(Fail::new(
                            format!("fast-vs-general/mixed-storage/{}", $name),
                            format!("{}: xs / ys as {}: fast path {:?}, per-element path {:?}", $ctx, $name, r.as_ref().map(|x| x.as_ref().map(|a| a.iter().take(4).cloned().collect::<Vec<_>>())), general.as_ref().map(|x| x.as_ref().map(|a| a.iter().take(4).cloned().collect::<Vec<_>>()))),
                        ))
                    }
                }
            }};
        }
        pair!(&xa, &ya.view(), "owned+view");
        pair!(&xa.view(), &ya, "view+owned");
        pair!(&xa, &ysh, "owned+shared");
        pair!(&xsh, &ya.view(), "shared+view");
    }};
}
macro_rules! callq_typed {
    (one, $i:expr, $x:expr, $y:expr) => {{
        let _ = $y;
        $i.interp_array($x).map_err(|e| e.to_string())
    }};
    (two, $i:expr, $x:expr, $y:expr) => {
        $i.interp_array($x, $y).map_err(|e| e.to_string())
    };
}
macro_rules! callinto {
    (one, $i:expr, $x:expr, $y:expr, $b:expr) => {{
        let _ = $y;
        $i.interp_array_into($x, $b).map_err(|e| e.to_string())
    }};
    (two, $i:expr, $x:expr, $y:expr, $b:expr) => {
        $i.interp_array_into($x, $y, $b).map_err(|e| e.to_string())
    };
}
macro_rules! ncasts {
    (one) => {
        2
    };
    (two) => {
        3
    };
}

macro_rules! cell {
    ($E:ty, $D:ty, $dn:expr, $rank:expr, $kind:tt, $store:ident) => {{
        fn f(src: &mut Src, obs: &mut Obs) -> Result<(), Fail> {
            let kind: Kind = kind_of!($kind);
            let rank: usize = if $rank == 0 { src.usize_in(if kind == Kind::Bilinear { 2 } else { 1 }, 5) } else { $rank };
            let s = setup::<$E>(src, rank, kind);
            let data = ArrayD::from_shape_vec(IxDyn(&s.shape), s.data.clone()).unwrap().into_dimensionality::<$D>().unwrap();
            let x = Array1::from_vec(s.x.clone());
            let y = Array1::from_vec(s.y.clone());
            let ctx = format!("{} data {}{:?} {} storage {}", <$E as Elem>::NAME, $dn, s.shape, ["Linear", "CubicSpline", "Bilinear"][kind as usize], stringify!($store));
            cell!(@build $store, $kind, $E, $D, data, x, y, s, obs, ctx);
            obs.nontrivial = true;
            obs.key(&ctx);
            obs.key(&s.data.iter().map(|v| v.bits()).collect::<Vec<_>>());
            obs.class(format!("elem:{}", <$E as Elem>::NAME));
            obs.class(format!("data:{}", $dn));
            obs.class(format!("store:{}", stringify!($store)));
            obs.class(["kind:Interp1D-Linear", "kind:Interp1D-CubicSpline", "kind:Interp2D-Bilinear"][kind as usize]);
            obs.describe(|| json!({"cell": ctx, "query_dims": ["Ix0", "Ix1 (fast path: 2 resp. 3 casts)", "Ix2", "Ix3", "IxDyn rank 1 (general path)"]}));
            Ok(())
        }
        (concat!(stringify!($E), "/", $dn, "/", stringify!($store)), f as fn(&mut Src, &mut Obs) -> Result<(), Fail>, kind_of!($kind))
    }};
    (@build owned, $kind:tt, $E:ty, $D:ty, $data:ident, $x:ident, $y:ident, $s:ident, $obs:ident, $ctx:ident) => {
        cell!(@strat $kind, $E, $D, $data, $x, $y, $s, $obs, $ctx)
    };
    (@build view, $kind:tt, $E:ty, $D:ty, $data:ident, $x:ident, $y:ident, $s:ident, $obs:ident, $ctx:ident) => {{
        let (dv, xv, yv) = ($data.view(), $x.view(), $y.view());
        cell!(@strat $kind, $E, $D, dv, xv, yv, $s, $obs, $ctx)
    }};
    (@build shared, $kind:tt, $E:ty, $D:ty, $data:ident, $x:ident, $y:ident, $s:ident, $obs:ident, $ctx:ident) => {{
        let (ds, xs, ys) = ($data.into_shared(), $x.into_shared(), $y.into_shared());
        cell!(@strat $kind, $E, $D, ds, xs, ys, $s, $obs, $ctx)
    }};
    (@strat lin, $E:ty, $D:ty, $data:ident, $x:ident, $y:ident, $s:ident, $obs:ident, $ctx:ident) => {{
        let _ = &$y;
        let i = Interp1DBuilder::new($data).x($x).strategy(Linear::new()).build().map_err(|e| Fail::new("build-failed", format!("{}: {e}", $ctx)))?;
        query_loop!(i, $s, one, $obs, $ctx);
    }};
    (@strat spl, $E:ty, $D:ty, $data:ident, $x:ident, $y:ident, $s:ident, $obs:ident, $ctx:ident) => {{
        let _ = &$y;
        let i = Interp1DBuilder::new($data).x($x).strategy(CubicSpline::<$E, $D>::new()).build().map_err(|e| Fail::new("build-failed", format!("{}: {e}", $ctx)))?;
        query_loop!(i, $s, one, $obs, $ctx);
    }};
    (@strat bil, $E:ty, $D:ty, $data:ident, $x:ident, $y:ident, $s:ident, $obs:ident, $ctx:ident) => {{
        let i = Interp2DBuilder::new($data).x($x).y($y).strategy(Bilinear::new()).build().map_err(|e| Fail::new("build-failed", format!("{}: {e}", $ctx)))?;
        query_loop!(i, $s, two, $obs, $ctx);
    }};
}

macro_rules! kind_of {
    (lin) => {
        Kind::Linear
    };
    (spl) => {
        Kind::Spline
    };
    (bil) => {
        Kind::Bilinear
    };
}

type CellFn = fn(&mut Src, &mut Obs) -> Result<(), Fail>;

macro_rules! stores {
    ($v:ident, $E:ty, $D:ty, $dn:expr, $rank:expr, $kind:tt) => {
        $v.push(cell!($E, $D, $dn, $rank, $kind, owned));
        $v.push(cell!($E, $D, $dn, $rank, $kind, view));
        $v.push(cell!($E, $D, $dn, $rank, $kind, shared));
    };
}
macro_rules! dims1 {
    ($v:ident, $E:ty, $kind:tt) => {
        stores!($v, $E, Ix1, "Ix1", 1, $kind);
        stores!($v, $E, Ix2, "Ix2", 2, $kind);
        stores!($v, $E, Ix3, "Ix3", 3, $kind);
        stores!($v, $E, Ix4, "Ix4", 4, $kind);
        stores!($v, $E, Ix5, "Ix5", 5, $kind);
        stores!($v, $E, Ix6, "Ix6", 6, $kind);
        stores!($v, $E, IxDyn, "IxDyn", 0, $kind);
    };
}
macro_rules! dims2 {
    ($v:ident, $E:ty, $kind:tt) => {
        stores!($v, $E, Ix2, "Ix2", 2, $kind);
        stores!($v, $E, Ix3, "Ix3", 3, $kind);
        stores!($v, $E, Ix4, "Ix4", 4, $kind);
        stores!($v, $E, Ix5, "Ix5", 5, $kind);
        stores!($v, $E, Ix6, "Ix6", 6, $kind);
        stores!($v, $E, IxDyn, "IxDyn", 0, $kind);
    };
}

fn cells() -> Vec<(&'static str, CellFn, Kind)> {
    let mut v: Vec<(&'static str, CellFn, Kind)> = Vec::new();
    dims1!(v, f64, lin);
    dims1!(v, f32, lin);
    dims1!(v, i32, lin);
    dims1!(v, i64, lin);
    dims1!(v, f64, spl);
    dims1!(v, f32, spl);
    dims2!(v, f64, bil);
    dims2!(v, f32, bil);
    dims2!(v, i32, bil);
    dims2!(v, i64, bil);
    v
}

struct C19 {
    cells: Vec<(&'static str, CellFn, Kind)>,
}

impl Check for C19 {
    fn id(&self) -> &'static str {
        "C19"
    }
    fn entropy_len(&self) -> usize {
        0
    }
    fn cases(&self, _t: Tier) -> u64 {
        0
    }
    fn run_case(&self, _s: &mut Src, _o: &mut Obs) -> Result<(), Fail> {
        Ok(())
    }
    fn enum_count(&self, tier: Tier) -> u64 {
        self.cells.len() as u64 * tier.pick(400, 20000)
    }
    fn enum_exhaustive(&self, _t: Tier) -> bool {
        true
    }
    fn run_enum(&self, index: u64, _tier: Tier, obs: &mut Obs) -> Result<(), Fail> {
        let c = (index % self.cells.len() as u64) as usize;
        let ent = derived_entropy(0xC19, index, 300);
        let mut src = Src::new(&ent);
        (self.cells[c].1)(&mut src, obs)
    }
    fn rule(&self) -> String {
        format!("the finite set of instantiations is enumerated completely: data dimension type {{Ix1..Ix6, IxDyn}} x storage {{owned, view, shared (Arc)}} x element type \
         {{f64, f32, i32, i64}} x {{Interp1D-Linear, Interp1D-CubicSpline (floats), Interp2D-Bilinear (data rank >= 2)}} = {} compiled cells, each queried with all of \
         {{Ix0, Ix1, Ix2, Ix3, IxDyn of runtime rank 1}}; per cell 400 (quick) / 20000 (thorough) random data sets (entropy derived from seed and index). With the hook \
         compiled in (--cfg ndarray_interp_verif) every cast_unchecked call compares type_name / size_of / align_of of source and destination and panics before the \
         reinterpreting read on a mismatch; the per-thread call counter must advance by exactly 2 (Interp1D: query + buffer) resp. 3 (Interp2D: xs, ys, buffer) for a \
         statically 1-D query and by 0 for every other query type, so the check also shows that the specialised path is taken exactly when it should be; its result \
         must be bit-identical to the per-element path (the same query passed with a dynamic dimension type). Non-trivial: every cell.", self.cells.len())
    }
    fn assumptions(&self) -> Vec<String> {
        vec![
            "a type-level fact is established only for the instantiations compiled into this binary; the hook turns a wrong cast from silent UB into a panic, it does not prove the type algebra".into(),
            "exhaustive: true refers to the listed instantiation set (the data inside a cell are sampled)".into(),
        ]
    }
    fn required_classes(&self, _t: Tier) -> Vec<&'static str> {
        vec!["elem:f64", "elem:f32", "elem:i32", "elem:i64", "data:Ix1", "data:Ix6", "data:IxDyn", "store:owned", "store:view", "store:shared", "kind:Interp1D-Linear", "kind:Interp1D-CubicSpline", "kind:Interp2D-Bilinear"]
    }
    fn extra_coverage(&self) -> serde_json::Value {
        json!({"cells": self.cells.len(), "query_dim_types_per_cell": 5})
    }
}

fn registry() -> Vec<Box<dyn Check>> {
    vec![Box::new(C19 { cells: cells() })]
}

fn main() {
    let _ = (Ix4::default().ndim(), Ix5::default().ndim(), Ix6::default().ndim());
    cli::run_cli(registry, || Ok(()));
}
