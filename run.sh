#!/bin/bash
# Entry point of every check:  ./run.sh <ID> <quick|thorough>   |   ./run.sh replay <file>   |   ./run.sh build
# exit 0 = property held on everything explored, 1 = VIOLATION (line printed), 2 = inconclusive (never a verdict)
set -u
cd "$(dirname "$0")"
export CARGO_NET_OFFLINE=true
# ROOT = where this script lives (/verif, or a snapshot of it made by `vp run`); a snapshot must
# be given its own CARGO_TARGET_DIR and VERIF_OUT so that it does not disturb /verif itself
ROOT=$(pwd)
TARGET=${CARGO_TARGET_DIR:-/verif/target}
export CARGO_TARGET_DIR=$TARGET
BINDIR=$TARGET/release
OUT=${VERIF_OUT:-/verif}
mkdir -p $TARGET $OUT/evidence $OUT/replays

# build one package of the harness workspace against /repo's current working tree
# (path dependency: cargo detects edits under /repo and rebuilds what depends on them)
build() {
    local pkg="$1" log="$TARGET/build-$1.log"
    ( cd $ROOT/harness && flock $TARGET/.build.lock cargo build --release -p "$pkg" >"$log.$$" 2>&1 )
    local rc=$?
    mv -f "$log.$$" "$log" 2>/dev/null
    return $rc
}

fail_build() {
    grep -E "^error" -A 12 "$TARGET/build-$1.log" | head -60
    echo "INCONCLUSIVE: $1 does not build against the current /repo tree (see $TARGET/build-$1.log)"
    exit 2
}

# Coverage-guided stage (thorough tier of the branch-structured properties): libFuzzer + ASan drive the
# same entropy decoders and check functions. Fixed work (-runs), fresh corpus seeded from VERIF_SEED.
# A finding is confirmed by replaying it through the ordinary (uninstrumented) binary before it is reported.
FUZZ_IDS="C05 C10 C11 C13 C14 C18"
fuzz_stage() {
    local id="$1" runs="$2" seed="${VERIF_SEED:-20261004}"
    local work=$OUT/work; mkdir -p $work
    local corp=$work/fuzz-corpus-$id art=$work/fuzz-artifacts-$id log=$work/fuzz-$id.log
    rm -rf $corp $art; mkdir -p $corp $art
    python3 - "$seed" "$corp" <<'PY'
import random, sys
r = random.Random(int(sys.argv[1]) & 0xffffffff)
for k in range(4):
    open(f"{sys.argv[2]}/seed{k}", "wb").write(bytes(r.getrandbits(8) for _ in range(9600)))
open(f"{sys.argv[2]}/zeros", "wb").write(bytes(64))
PY
    local t0=$(date +%s)
    ( cd $ROOT/harness && VERIF_FUZZ_ID=$id cargo +nightly fuzz run --fuzz-dir $ROOT/fuzz entropy $corp -- \
        -runs=$runs -seed=$(( seed % 4294967295 + 1 )) -max_len=9600 -len_control=0 -artifact_prefix=$art/ -print_final_stats=1 ) >$log 2>&1
    local rc=$? t1=$(date +%s)
    if grep -q "could not compile\|error: failed to\|could not find" $log && ! grep -q "Done $runs runs\|FUZZ-VIOLATION\|ERROR: " $log; then
        echo "fuzz stage for $id skipped: the instrumented target did not build (see $log)"
        FUZZ_NOTE="skipped: instrumented build failed"; return 0
    fi
    if [ $rc -eq 0 ]; then
        local execs=$(sed -n 's/^stat::number_of_executed_units: *//p' $log | tail -1)
        local cov=$(grep -oE "cov: [0-9]+" $log | tail -1 | cut -d' ' -f2)
        echo "fuzz stage $id: ${execs:-$runs} executions, coverage ${cov:-?} edges, corpus $(ls $corp | wc -l) files, no finding, $((t1-t0))s"
        FUZZ_NOTE="libFuzzer+ASan: ${execs:-$runs} executions, ${cov:-0} edges covered, corpus $(ls $corp | wc -l), no finding, $((t1-t0))s"
        return 0
    fi
    local rp=$(sed -n 's/^FUZZ-VIOLATION property=[A-Z0-9]* replay=//p' $log | head -1)
    if [ -z "$rp" ]; then
        local a=$(ls $art/* 2>/dev/null | head -1)
        if [ -n "$a" ]; then
            rp=$($BINDIR/vcheck from-bytes $id $a | sed -n 's/^replay=//p')
            if grep -q "ERROR: AddressSanitizer" $log; then
                grep -m3 "ERROR: AddressSanitizer\|SUMMARY" $log
                echo "memory error detected by AddressSanitizer while executing the case in $rp"
                echo "VIOLATION property=$id replay=$rp"; exit 1
            fi
        fi
    fi
    if [ -n "$rp" ] && ! $BINDIR/vcheck replay $rp >/dev/null 2>&1; then
        $BINDIR/vcheck replay $rp | head -3
        exit 1
    fi
    # The instrumented (ASan + coverage, debug-assertion) build reported something that the ordinary build does
    # not show when the very same case is replayed. That is not a verdict about the code under test (a finding
    # counts only if it reproduces through the ordinary binary); it is recorded in the evidence and the stage ends.
    echo "fuzz stage $id: the instrumented build stopped (exit $rc) on a case that does not reproduce in the ordinary build: ${rp:-no replay file}; recorded as a note, not a verdict (see $log)"
    FUZZ_NOTE="libFuzzer+ASan stopped with exit $rc after $(grep -oE '^#[0-9]+' $log | tail -1) executions on a case that does NOT reproduce when replayed through the ordinary binary (${rp:-no replay}); not a verdict"
    return 0
}

pkg_of() { case "$1" in C19) echo vmatrix ;; *) echo vcheck ;; esac; }

cmd="${1:-}"
case "$cmd" in
  build)
    for p in vcheck vmatrix static_c17; do build $p || fail_build $p; done
    exit 0 ;;
  replay)
    f="${2:?replay file}"
    case "$f" in
      *C17-static-build*.log)
        # the static Send + Sync assertions: the replay is the build itself
        if build static_c17; then echo "replay: static_c17 compiles, Send + Sync hold"; exit 0
        else grep -E "^error" -A 12 $TARGET/build-static_c17.log | head -40; echo "VIOLATION property=C17 replay=$f"; exit 1; fi ;;
    esac
    id=$(sed -n 's/.*"property": *"\(C[0-9]*\)".*/\1/p' "$f" | head -1)
    p=$(pkg_of "$id")
    build $p || fail_build $p
    exec "$BINDIR/$p" replay "$f" ;;
  "")
    echo "usage: $0 <ID> <quick|thorough> | replay <file> | build"; exit 2 ;;
esac

ID="$cmd"
TIER="${2:-quick}"
if [ "$ID" = "C17" ]; then
    # compile-time half of C17: Send + Sync of the interpolator types
    if ! build static_c17; then
        if build ndarray-interp; then
            cp $TARGET/build-static_c17.log $OUT/replays/C17-static-build.log
            grep -E "^error" -A 12 $TARGET/build-static_c17.log | head -40
            echo "static Send + Sync assertions no longer compile although the crate itself builds"
            echo "VIOLATION property=C17 replay=$OUT/replays/C17-static-build.log"
            exit 1
        fi
        fail_build static_c17
    fi
fi
P=$(pkg_of "$ID")
build $P || fail_build $P
if [ "$ID" = "fuzz" ]; then :; fi
case " $FUZZ_IDS " in
  *" $ID "*)
    if [ "$TIER" = "thorough" ] || [ "${VERIF_TIER:-}" = "thorough" ]; then
        "$BINDIR/$P" "$ID" --tier "$TIER"; rc=$?
        [ $rc -ne 0 ] && exit $rc
        FUZZ_NOTE=""
        fuzz_stage "$ID" "${VERIF_FUZZ_RUNS:-300000}"
        python3 - "$OUT/evidence/$ID.json" "$FUZZ_NOTE" <<'PY'
import json, sys
p, note = sys.argv[1], sys.argv[2]
d = json.load(open(p)); d["coverage"]["coverage_guided_stage"] = note; json.dump(d, open(p, "w"), indent=2)
PY
        exit 0
    fi ;;
esac
exec "$BINDIR/$P" "$ID" --tier "$TIER"
