#!/bin/bash
# Entry point of every check:  ./run.sh <ID> <quick|thorough>   |   ./run.sh replay <file>   |   ./run.sh build
# exit 0 = property held on everything explored, 1 = VIOLATION (line printed), 2 = inconclusive (never a verdict)
set -u
cd "$(dirname "$0")"
export CARGO_NET_OFFLINE=true
ROOT=/verif
BINDIR=$ROOT/target/release
mkdir -p $ROOT/target $ROOT/evidence $ROOT/replays

# build one package of the harness workspace against /repo's current working tree
# (path dependency: cargo detects edits under /repo and rebuilds what depends on them)
build() {
    local pkg="$1" log="$ROOT/target/build-$1.log"
    ( cd $ROOT/harness && flock $ROOT/target/.build.lock cargo build --release -p "$pkg" >"$log.$$" 2>&1 )
    local rc=$?
    mv -f "$log.$$" "$log" 2>/dev/null
    return $rc
}

fail_build() {
    grep -E "^error" -A 12 "$ROOT/target/build-$1.log" | head -60
    echo "INCONCLUSIVE: $1 does not build against the current /repo tree (see $ROOT/target/build-$1.log)"
    exit 2
}

pkg_of() { case "$1" in C19) echo vmatrix ;; *) echo vcheck ;; esac; }

cmd="${1:-}"
case "$cmd" in
  build)
    for p in vcheck vmatrix static_c17; do build $p || fail_build $p; done
    exit 0 ;;
  replay)
    f="${2:?replay file}"
    case "$f" in
      *C17-static-build*.log)
        # the static Send + Sync assertions: the replay is the build itself
        if build static_c17; then echo "replay: static_c17 compiles, Send + Sync hold"; exit 0
        else grep -E "^error" -A 12 $ROOT/target/build-static_c17.log | head -40; echo "VIOLATION property=C17 replay=$f"; exit 1; fi ;;
    esac
    id=$(sed -n 's/.*"property": *"\(C[0-9]*\)".*/\1/p' "$f" | head -1)
    p=$(pkg_of "$id")
    build $p || fail_build $p
    exec "$BINDIR/$p" replay "$f" ;;
  "")
    echo "usage: $0 <ID> <quick|thorough> | replay <file> | build"; exit 2 ;;
esac

ID="$cmd"
TIER="${2:-quick}"
if [ "$ID" = "C17" ]; then
    # compile-time half of C17: Send + Sync of the interpolator types
    if ! build static_c17; then
        if build ndarray-interp; then
            cp $ROOT/target/build-static_c17.log $ROOT/replays/C17-static-build.log
            grep -E "^error" -A 12 $ROOT/target/build-static_c17.log | head -40
            echo "static Send + Sync assertions no longer compile although the crate itself builds"
            echo "VIOLATION property=C17 replay=$ROOT/replays/C17-static-build.log"
            exit 1
        fi
        fail_build static_c17
    fi
fi
P=$(pkg_of "$ID")
build $P || fail_build $P
exec "$BINDIR/$P" "$ID" --tier "$TIER"
