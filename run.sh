#!/bin/bash
# Entry point of every check:  ./run.sh <ID> <quick|thorough>   |   ./run.sh replay <file>   |   ./run.sh build
# exit 0 = property held on everything explored, 1 = VIOLATION (line printed), 2 = inconclusive (never a verdict)
set -u
cd "$(dirname "$0")"
export CARGO_NET_OFFLINE=true
ROOT=/verif
BIN=$ROOT/target/release/vcheck
LOG=$ROOT/target/build.log
mkdir -p $ROOT/target $ROOT/evidence $ROOT/replays

build() {
    # rebuilds from /repo's current working tree (path dependency; cargo detects the changes)
    ( cd $ROOT/harness && flock $ROOT/target/.build.lock cargo build --release >"$LOG.$$" 2>&1 )
    local rc=$?
    mv -f "$LOG.$$" "$LOG" 2>/dev/null
    return $rc
}

cmd="${1:-}"
case "$cmd" in
  build)
    build || { tail -40 "$LOG"; echo "INCONCLUSIVE: harness build failed"; exit 2; }
    exit 0 ;;
  replay)
    build || { tail -40 "$LOG"; echo "INCONCLUSIVE: harness build failed"; exit 2; }
    exec "$BIN" replay "$2" ;;
  "")
    echo "usage: $0 <ID> <quick|thorough> | replay <file> | build"; exit 2 ;;
esac

ID="$cmd"
TIER="${2:-quick}"
if ! build; then
    grep -E "^error" -A 12 "$LOG" | head -60
    echo "INCONCLUSIVE: harness does not build against the current /repo tree (see $LOG)"
    exit 2
fi
exec "$BIN" "$ID" --tier "$TIER"
